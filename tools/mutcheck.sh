#!/bin/bash
# usage: mutcheck.sh <seeded-dir-name> <CHECK-ID> [tier]
# Applies /verif/seeded/<name>/patch.diff to a scratch worktree of /repo HEAD (never to /repo itself),
# runs the check against it (VERIF_REPO), prints the last lines, removes the worktree.
NAME=$1; ID=$2; TIER=${3:-quick}
W=/tmp/mutrepo-$NAME-$$
git -C /repo worktree add -q --detach $W HEAD || exit 2
git -C $W apply /verif/seeded/$NAME/patch.diff || { echo "PATCH DOES NOT APPLY"; git -C /repo worktree remove --force $W; exit 3; }
mkdir -p /tmp/mutev-$$
cd /verif
VERIF_REPO=$W VERIF_EVIDENCE_DIR=/tmp/mutev-$$ VERIF_REPLAY_DIR=/tmp/mutev-$$ timeout ${MUT_TIMEOUT:-1500} ./check $ID --tier $TIER > /tmp/mutev-$$/out.log 2>&1
RC=$?
echo "== $NAME vs $ID ($TIER): rc=$RC"
(grep -E "^VIOLATION" /tmp/mutev-$$/out.log; grep -E "^(KNOWN|INCONCLUSIVE)" /tmp/mutev-$$/out.log) | cut -c1-300 | head -${MUT_LINES:-4}
tail -1 /tmp/mutev-$$/out.log | cut -c1-300
git -C /repo worktree remove --force $W
rm -rf /tmp/mutev-$$ /verif/.build/target-$(echo -n $W | sha1sum | cut -c1-8)*
exit $RC
