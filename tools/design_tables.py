#!/usr/bin/env python3
"""Regenerates the generated lists/tables of DESIGN.md §13 from known_findings.json and seeded/RESULTS.tsv (+ seeded/NOTES.tsv)."""
import collections
import json
import os

ROOT = os.path.dirname(os.path.dirname(os.path.abspath(__file__)))


def main():
    d = json.load(open(os.path.join(ROOT, "known_findings.json")))
    by = collections.defaultdict(list)
    for f in d["findings"]:
        by[f["property"]].append(f)
    fix, known = [], []
    for p in sorted(by):
        for f in by[p]:
            if f["status"] == "fixed":
                txt = f["line"].split(" ", 3)[3] if f["line"].startswith("fixed:") else f["line"]
                fix.append("| %s | `%s` | %s |" % (p, f["commit"], txt.replace("|", "\\|")))
            else:
                known.append("* **%s** `%s` — %s" % (p, f["key"], (f.get("what_fails") or f.get("line") or "")))
    notes = {}
    np_ = os.path.join(ROOT, "seeded", "NOTES.tsv")
    if os.path.exists(np_):
        for l in open(np_):
            a = l.rstrip("\n").split("\t")
            if len(a) >= 2:
                notes[a[0]] = a[1]
    rows = []
    for l in open(os.path.join(ROOT, "seeded", "RESULTS.tsv")):
        a = l.rstrip("\n").split("\t")
        if len(a) >= 3:
            rows.append("| %s | %s | %s | `%s` | %s |" % (a[0], a[1], a[2], a[3] if len(a) > 3 else "", notes.get(a[0], "") if a[1] == a[0].split("-")[0] else ""))
    rows.sort(key=lambda r: (r.split("|")[1].strip().split("-")[0], int(r.split("|")[1].strip().split("-")[1]), r.split("|")[2]))
    p = os.path.join(ROOT, "DESIGN.md")
    s = open(p).read()
    h1 = "| property | commit | what failed before |\n|----------|--------|--------------------|\n"
    i = s.index(h1) + len(h1)
    j = s.index("\n\nThe baseline suite", i)
    s = s[:i] + "\n".join(fix) + s[j:]
    h0 = "### 13.6 Known findings (genuine, not repaired; listed by mechanism in known_findings.json)\n\n"
    i = s.index(h0) + len(h0)
    j = s.index("\n\nWhy not repaired:", i)
    s = s[:i] + "\n".join(known) + s[j:]
    h2 = "| seeded change | check | rc | first signature reported | note |\n|---------------|-------|----|--------------------------|------|\n"
    i = s.index(h2) + len(h2)
    j = s.index("\n\nRetired:", i)
    s = s[:i] + "\n".join(rows) + s[j:]
    open(p, "w").write(s)
    print("fix rows %d, known %d, seeded rows %d" % (len(fix), len(known), len(rows)))


if __name__ == "__main__":
    main()
