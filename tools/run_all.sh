#!/bin/bash
# usage: run_all.sh [tier] [seed]  — runs every registered check, one line per check
TIER=${1:-quick}; SEED=${2:-0}
cd /verif
for id in C01 C02 C03 C04 C05 C06 C07 C08 C09 C10 C11 C12 C13 C14 C15 C16 C17 C18 C19 C20; do
  VERIF_SEED=$SEED VERIF_WATCHDOG=${WATCHDOG:-3000} timeout ${TMO:-3600} ./check $id --tier $TIER > /tmp/runall-$id-$TIER-$SEED.log 2>&1
  echo "$id rc=$? $(tail -1 /tmp/runall-$id-$TIER-$SEED.log | cut -c1-200)"
done
