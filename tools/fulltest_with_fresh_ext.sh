#!/bin/bash
# Runs the repository's test suite on a scratch worktree of /repo HEAD with the Rust extensions rebuilt from that HEAD.
W=/tmp/rtest-$$
git -C /repo worktree add -q --detach $W HEAD || exit 2
cd $W && CARGO_TARGET_DIR=/tmp/rtest-target-$$ cargo build --offline -q 2>&1 | tail -2
cp /tmp/rtest-target-$$/debug/libobjects_py.so dulwich/_objects.cpython-312-x86_64-linux-gnu.so
cp /tmp/rtest-target-$$/debug/libpack_py.so dulwich/_pack.cpython-312-x86_64-linux-gnu.so
cp /tmp/rtest-target-$$/debug/libdiff_tree_py.so dulwich/_diff_tree.cpython-312-x86_64-linux-gnu.so
timeout 2400 /venv/bin/python -m pytest -ra -q -p no:cacheprovider --timeout=900 --continue-on-collection-errors 2>&1 | tail -15
# test modules the default collection does not pick up (classes living in package __init__ files)
timeout 1200 /venv/bin/python -m pytest -q -p no:cacheprovider --timeout=900 tests/porcelain/__init__.py tests/__init__.py 2>&1 | tail -4
cd /; git -C /repo worktree remove --force $W; rm -rf /tmp/rtest-target-$$
