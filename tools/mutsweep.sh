#!/bin/bash
# Runs every seeded change under /verif/seeded against the check of its property (scratch worktree, never /repo) and
# writes /verif/seeded/RESULTS.tsv: name, check, exit code, first violation signature.
cd /verif
# SHARD=k NSHARDS=n runs every n-th seeded change into RESULTS.tsv.part<k> (merge: sort the parts into RESULTS.tsv)
OUT=/verif/seeded/RESULTS.tsv
[ -n "$NSHARDS" ] && OUT=$OUT.part$SHARD
: > $OUT.tmp
i=0
for d in seeded/C*-*/; do
  n=$(basename $d); id=${n%%-*}
  i=$((i+1))
  [ -n "$NSHARDS" ] && [ $((i % NSHARDS)) -ne "$SHARD" ] && continue
  extra=""
  [ "$n" = "C14-2" ] && extra="C10"
  [ "$n" = "C08-5" ] && extra="C16"
  [ "$n" = "C09-4" ] && extra="C10"
  [ "$n" = "C09-6" ] && extra="C10"
  [ "$n" = "C06-7" ] && extra="C08"
  [ "$n" = "C09-8" ] && extra="C16"
  [ "$n" = "C14-7" ] && extra="C09 C08"
  for chk in $id $extra; do
    r=$(MUT_LINES=1 MUT_TIMEOUT=${MUT_TIMEOUT:-1500} tools/mutcheck.sh $n $chk quick 2>&1)
    rc=$(echo "$r" | grep -o "rc=[0-9]*" | head -1 | cut -d= -f2)
    sig=$(echo "$r" | grep -o "sig=[^ ]*" | head -1 | cut -c5-160)
    [ -z "$sig" ] && sig=$(echo "$r" | grep -E "PATCH DOES NOT APPLY|INCONCLUSIVE" | head -1 | cut -c1-100)
    echo -e "$n\t$chk\t${rc:-?}\t$sig" | tee -a $OUT.tmp
  done
done
mv $OUT.tmp $OUT
