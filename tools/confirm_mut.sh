#!/bin/bash
# usage: confirm_mut.sh <ID> <K>   -- confirm mutant K of property ID in its scratch worktree /tmp/mut/<ID>
# demo must FAIL with patch, PASS without; full test suite must pass (modulo the 5 known baseline failures).
ID=$1; K=$2; W=/tmp/mut/$ID; OUT=/verif/seeded/$ID-$K
cd $W || exit 2
git checkout -q -- . 
# bring worktree to current /repo HEAD so the patch is confirmed against the tree the checks run on
git checkout -q --detach $(git -C /repo rev-parse HEAD) 2>/dev/null
cp /repo/dulwich/*.so dulwich/ 2>/dev/null
PY=/venv/bin/python
$PY MUT/demo$K.py > /tmp/mut/$ID.demo$K.clean.log 2>&1; RC_CLEAN=$?
git apply MUT/patch$K.diff || { echo "PATCH DOES NOT APPLY"; exit 3; }
RUST=0
if grep -q "crates/" MUT/patch$K.diff; then
  RUST=1
  CARGO_TARGET_DIR=/tmp/mut/$ID-target cargo build --offline -q 2>&1 | tail -3
  cp /tmp/mut/$ID-target/debug/libobjects_py.so dulwich/_objects.cpython-312-x86_64-linux-gnu.so
  cp /tmp/mut/$ID-target/debug/libpack_py.so dulwich/_pack.cpython-312-x86_64-linux-gnu.so
  cp /tmp/mut/$ID-target/debug/libdiff_tree_py.so dulwich/_diff_tree.cpython-312-x86_64-linux-gnu.so
fi
$PY MUT/demo$K.py > /tmp/mut/$ID.demo$K.mut.log 2>&1; RC_MUT=$?
timeout 1500 $PY -m pytest -q -p no:cacheprovider --timeout=900 -n 6 tests > /tmp/mut/$ID.tests$K.log 2>&1
TESTS=$(tail -1 /tmp/mut/$ID.tests$K.log)
FAILED=$(grep -E "^(FAILED|ERROR)" /tmp/mut/$ID.tests$K.log | sed 's/ - .*//' | sort | tr '\n' ' ')
git checkout -q -- .
cp /repo/dulwich/*.so dulwich/ 2>/dev/null
rm -rf /tmp/mut/$ID-target
echo "ID=$ID K=$K demo_clean_rc=$RC_CLEAN demo_mut_rc=$RC_MUT rust=$RUST tests: $TESTS failed: $FAILED"
if [ $RC_CLEAN -eq 0 ] && [ $RC_MUT -ne 0 ]; then
  mkdir -p $OUT
  cp MUT/patch$K.diff $OUT/patch.diff; cp MUT/demo$K.py $OUT/demo.py
  $PY - <<PYEOF
import json
m=json.load(open("MUT/meta$K.json"))
m["confirmed_by_main_session"]={"worktree":"$W at /repo HEAD $(git -C /repo rev-parse --short HEAD)","demo_without_patch_rc":$RC_CLEAN,"demo_with_patch_rc":$RC_MUT,"rust_rebuild":bool($RUST),
 "test_cmd":"/venv/bin/python -m pytest -q -p no:cacheprovider --timeout=900 -n 6 tests (patch applied)","test_result":"""$TESTS""","tests_failed":"""$FAILED"""}
json.dump(m,open("$OUT/meta.json","w"),indent=1)
PYEOF
fi
