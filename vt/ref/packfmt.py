"""Independent pack / pack-index / delta reference, written from gitformat-pack (no dulwich imports).

parse_pack(data)       -> PackInfo (entries with offsets, types, inflated payloads, crc32 of raw bytes)
resolve(packinfo, ext) -> {hex id: (type name, bytes)} applying OFS/REF deltas with strict_apply_delta
write_pack(entries)    -> bytes (undeltified or with given delta payloads)
parse_idx(data)        -> IdxInfo for v1/v2 (and dulwich's v3 layout)
strict_apply_delta / trace_delta -- git patch-delta.c semantics / lenient op tracer
"""
import hashlib
import struct
import zlib

TYPE_NAMES = {1: b"commit", 2: b"tree", 3: b"blob", 4: b"tag"}
TYPE_NUMS = {v: k for k, v in TYPE_NAMES.items()}
OFS_DELTA, REF_DELTA = 6, 7


class PackFormatError(Exception):
    pass


class DeltaError(Exception):
    pass


# ------------------------------------------------------------------------------ delta
def _varint(delta, i):
    size, shift = 0, 0
    while True:
        if i >= len(delta):
            raise DeltaError("truncated size header")
        c = delta[i]
        i += 1
        size |= (c & 0x7F) << shift
        shift += 7
        if not c & 0x80:
            return size, i


def delta_sizes(delta):
    s, i = _varint(delta, 0)
    d, i = _varint(delta, i)
    return s, d, i


def strict_apply_delta(base: bytes, delta: bytes) -> bytes:
    """git patch-delta.c semantics (with arbitrary precision header ints)."""
    src_size, dst_size, i = delta_sizes(delta)
    if src_size != len(base):
        raise DeltaError("source size mismatch")
    out = []
    left = dst_size
    n = len(delta)
    while i < n:
        cmd = delta[i]
        i += 1
        if cmd & 0x80:
            off = size = 0
            for b in range(4):
                if cmd & (1 << b):
                    if i >= n:
                        raise DeltaError("truncated copy op")
                    off |= delta[i] << (8 * b)
                    i += 1
            for b in range(3):
                if cmd & (1 << (4 + b)):
                    if i >= n:
                        raise DeltaError("truncated copy op")
                    size |= delta[i] << (8 * b)
                    i += 1
            if size == 0:
                size = 0x10000
            if off + size > len(base) or size > left:
                raise DeltaError("copy out of bounds")
            out.append(base[off:off + size])
            left -= size
        elif cmd:
            if cmd > left or i + cmd > n:
                raise DeltaError("insert out of bounds")
            out.append(delta[i:i + cmd])
            i += cmd
            left -= cmd
        else:
            raise DeltaError("opcode 0")
    if left != 0:
        raise DeltaError("dest size mismatch")
    return b"".join(out)


def lenient_output(base: bytes, delta: bytes, limit=1 << 26):
    """Concatenation of the outputs of all ops up to (not including) the first invalid op, or None if larger than limit."""
    try:
        _, _, i = delta_sizes(delta)
    except DeltaError:
        return None
    out, n, total = [], len(delta), 0
    while i < n:
        cmd = delta[i]
        i += 1
        if cmd & 0x80:
            off = size = 0
            for b in range(4):
                if cmd & (1 << b):
                    if i >= n:
                        return b"".join(out)
                    off |= delta[i] << (8 * b)
                    i += 1
            for b in range(3):
                if cmd & (1 << (4 + b)):
                    if i >= n:
                        return b"".join(out)
                    size |= delta[i] << (8 * b)
                    i += 1
            if size == 0:
                size = 0x10000
            if off + size > len(base):
                break
            out.append(base[off:off + size])
            total += size
        elif cmd:
            if i + cmd > n:
                break
            out.append(delta[i:i + cmd])
            i += cmd
            total += cmd
        else:
            break
        if total > limit:
            return None
    return b"".join(out)


def trace_delta(base_len: int, delta: bytes, cap=1 << 62):
    """Lenient tracer: how many bytes can the ops produce (stops at the first invalid op).
    -> dict(src, dst, produced, valid)"""
    try:
        src_size, dst_size, i = delta_sizes(delta)
    except DeltaError:
        return {"src": None, "dst": None, "produced": 0, "valid": False}
    produced, valid, n = 0, src_size == base_len, len(delta)
    while i < n and produced < cap:
        cmd = delta[i]
        i += 1
        if cmd & 0x80:
            off = size = 0
            bad = False
            for b in range(4):
                if cmd & (1 << b):
                    if i >= n:
                        bad = True
                        break
                    off |= delta[i] << (8 * b)
                    i += 1
            for b in range(3):
                if not bad and cmd & (1 << (4 + b)):
                    if i >= n:
                        bad = True
                        break
                    size |= delta[i] << (8 * b)
                    i += 1
            if size == 0:
                size = 0x10000
            if bad or off + size > base_len:
                valid = False
                break
            produced += size
        elif cmd:
            if i + cmd > n:
                valid = False
                break
            produced += cmd
            i += cmd
        else:
            valid = False
            break
    if produced != dst_size:
        valid = False
    return {"src": src_size, "dst": dst_size, "produced": produced, "valid": valid}


def encode_varint_size(n):
    out = bytearray()
    while True:
        c = n & 0x7F
        n >>= 7
        if n:
            out.append(c | 0x80)
        else:
            out.append(c)
            return bytes(out)


# ------------------------------------------------------------------------------ pack
class Entry:
    __slots__ = ("offset", "type", "size", "base_ofs", "base_ref", "payload", "raw_len", "crc32", "hdr_len")

    def __repr__(self):
        return "<Entry @%d type=%d size=%d>" % (self.offset, self.type, self.size)


class PackInfo:
    def __init__(self):
        self.version = None
        self.count = None
        self.entries = []
        self.trailer = None
        self.computed_trailer = None
        self.hash_len = 20


def parse_pack(data: bytes, hash_len=20) -> PackInfo:
    pi = PackInfo()
    pi.hash_len = hash_len
    if data[:4] != b"PACK":
        raise PackFormatError("bad signature")
    pi.version, pi.count = struct.unpack(">LL", data[4:12])
    if pi.version not in (2, 3):
        raise PackFormatError("bad version")
    pos = 12
    end = len(data) - hash_len
    for _ in range(pi.count):
        e = Entry()
        e.offset = pos
        if pos >= end:
            raise PackFormatError("truncated: entry header")
        c = data[pos]
        pos += 1
        e.type = (c >> 4) & 7
        size = c & 15
        shift = 4
        while c & 0x80:
            if pos >= end:
                raise PackFormatError("truncated: size varint")
            c = data[pos]
            pos += 1
            size |= (c & 0x7F) << shift
            shift += 7
        e.size = size
        e.base_ofs = e.base_ref = None
        if e.type == OFS_DELTA:
            c = data[pos]
            pos += 1
            ofs = c & 0x7F
            while c & 0x80:
                c = data[pos]
                pos += 1
                ofs = ((ofs + 1) << 7) | (c & 0x7F)
            if ofs == 0 or ofs > e.offset:
                raise PackFormatError("bad ofs-delta offset")
            e.base_ofs = e.offset - ofs
        elif e.type == REF_DELTA:
            e.base_ref = data[pos:pos + hash_len]
            pos += hash_len
        elif e.type not in TYPE_NAMES:
            raise PackFormatError("bad object type %d" % e.type)
        e.hdr_len = pos - e.offset
        d = zlib.decompressobj()
        try:
            e.payload = d.decompress(data[pos:end])
        except zlib.error as ex:
            raise PackFormatError("zlib: %s" % ex)
        if not d.eof:
            raise PackFormatError("truncated zlib stream")
        used = (end - pos) - len(d.unused_data)
        if len(e.payload) != e.size:
            raise PackFormatError("inflated size %d != header size %d" % (len(e.payload), e.size))
        pos += used
        e.raw_len = pos - e.offset
        e.crc32 = zlib.crc32(data[e.offset:pos]) & 0xFFFFFFFF
        pi.entries.append(e)
    if pos != end:
        raise PackFormatError("garbage between last entry and trailer (%d bytes)" % (end - pos))
    pi.trailer = data[end:]
    h = hashlib.sha1() if hash_len == 20 else hashlib.sha256()
    h.update(data[:end])
    pi.computed_trailer = h.digest()
    return pi


def obj_id(tname: bytes, body: bytes, hash_len=20) -> bytes:
    h = hashlib.sha1() if hash_len == 20 else hashlib.sha256()
    h.update(tname + b" " + str(len(body)).encode() + b"\0")
    h.update(body)
    return h.digest()


def resolve(pi: PackInfo, external=None):
    """-> (objects {raw id: (type name, body)}, by_offset {offset: raw id}).  external: {raw id: (tname, body)} (thin packs)"""
    external = external or {}
    starts = {e.offset for e in pi.entries}
    done = {}   # offset -> (tname, body)
    objs = {}   # raw id -> (tname, body)
    ids = {}
    pending = []
    for e in pi.entries:
        if e.type in TYPE_NAMES:
            done[e.offset] = (TYPE_NAMES[e.type], e.payload)
        else:
            if e.type == OFS_DELTA and e.base_ofs not in starts:
                raise PackFormatError("ofs-delta base not at an entry start")
            pending.append(e)
    for ofs, (tn, body) in done.items():
        oid = obj_id(tn, body, pi.hash_len)
        objs[oid] = (tn, body)
        ids[ofs] = oid
    progress = True
    while pending and progress:
        progress = False
        rest = []
        for e in pending:
            if e.type == OFS_DELTA:
                base = done.get(e.base_ofs)
            else:
                base = objs.get(e.base_ref) or external.get(e.base_ref)
            if base is None:
                rest.append(e)
                continue
            tn, body = base
            r = (tn, strict_apply_delta(body, e.payload))
            done[e.offset] = r
            oid = obj_id(r[0], r[1], pi.hash_len)
            objs[oid] = r
            ids[e.offset] = oid
            progress = True
        pending = rest
    if pending:
        raise PackFormatError("unresolvable deltas: %d (missing or cyclic bases)" % len(pending))
    return objs, ids


def entry_header(type_num, size):
    c = (type_num << 4) | (size & 15)
    size >>= 4
    out = bytearray()
    while size:
        out.append(c | 0x80)
        c = size & 0x7F
        size >>= 7
    out.append(c)
    return bytes(out)


def ofs_encode(delta_ofs):
    out = [delta_ofs & 0x7F]
    delta_ofs >>= 7
    while delta_ofs:
        delta_ofs -= 1
        out.insert(0, 0x80 | (delta_ofs & 0x7F))
        delta_ofs >>= 7
    return bytes(out)


def write_pack(items, hash_len=20, level=-1):
    """items: list of ("blob"/..., body) | ("ref-delta", base raw id, delta payload) | ("ofs-delta", index of base item, delta)."""
    out = bytearray(b"PACK" + struct.pack(">LL", 2, len(items)))
    offsets = []
    for it in items:
        offsets.append(len(out))
        if it[0] == "ref-delta":
            out += entry_header(REF_DELTA, len(it[2])) + it[1] + zlib.compress(it[2], level)
        elif it[0] == "ofs-delta":
            out += entry_header(OFS_DELTA, len(it[2])) + ofs_encode(offsets[-1] - offsets[it[1]]) + zlib.compress(it[2], level)
        else:
            tn = it[0].encode() if isinstance(it[0], str) else it[0]
            out += entry_header(TYPE_NUMS[tn], len(it[1])) + zlib.compress(it[1], level)
    h = hashlib.sha1() if hash_len == 20 else hashlib.sha256()
    h.update(bytes(out))
    return bytes(out) + h.digest()


# ------------------------------------------------------------------------------ idx
class IdxInfo:
    pass


def parse_idx(data: bytes, hash_len=20):
    ii = IdxInfo()
    ii.problems = []
    if data[:4] == b"\xfftOc":
        ii.version = struct.unpack(">L", data[4:8])[0]
        pos = 8
        if ii.version == 3:
            # dulwich's v3: hash algorithm id + shortened-name length follow
            ii.hash_algo, ii.short_len = struct.unpack(">LL", data[8:16])
            pos = 16
        elif ii.version != 2:
            raise PackFormatError("unknown idx version %d" % ii.version)
        ii.fanout = list(struct.unpack(">256L", data[pos:pos + 1024]))
        pos += 1024
        n = ii.fanout[255]
        ii.names = [data[pos + i * hash_len:pos + (i + 1) * hash_len] for i in range(n)]
        pos += n * hash_len
        ii.crcs = list(struct.unpack(">%dL" % n, data[pos:pos + 4 * n]))
        pos += 4 * n
        offs = list(struct.unpack(">%dL" % n, data[pos:pos + 4 * n]))
        pos += 4 * n
        nlarge = sum(1 for o in offs if o & 0x80000000)
        large = list(struct.unpack(">%dQ" % nlarge, data[pos:pos + 8 * nlarge]))
        pos += 8 * nlarge
        ii.offsets = []
        used = set()
        for o in offs:
            if o & 0x80000000:
                k = o & 0x7FFFFFFF
                if k >= nlarge:
                    ii.problems.append("large offset index out of range")
                    ii.offsets.append(None)
                else:
                    used.add(k)
                    ii.offsets.append(large[k])
                    if large[k] < 0x80000000:
                        ii.problems.append("64-bit table used for small offset")
            else:
                ii.offsets.append(o)
        ii.nlarge = nlarge
        ii.pack_checksum = data[pos:pos + hash_len]
        pos += hash_len
        ii.idx_checksum = data[pos:pos + hash_len]
        body_end = pos
        pos += hash_len
    else:
        ii.version = 1
        ii.fanout = list(struct.unpack(">256L", data[:1024]))
        n = ii.fanout[255]
        pos = 1024
        ii.names, ii.offsets, ii.crcs = [], [], None
        for i in range(n):
            ii.offsets.append(struct.unpack(">L", data[pos:pos + 4])[0])
            ii.names.append(data[pos + 4:pos + 4 + hash_len])
            pos += 4 + hash_len
        ii.pack_checksum = data[pos:pos + hash_len]
        pos += hash_len
        ii.idx_checksum = data[pos:pos + hash_len]
        body_end = pos
        pos += hash_len
    if pos != len(data):
        ii.problems.append("idx has %d trailing/missing bytes" % (len(data) - pos))
    h = hashlib.sha1() if hash_len == 20 else hashlib.sha256()
    h.update(data[:body_end])
    if h.digest() != ii.idx_checksum:
        ii.problems.append("idx trailer checksum mismatch")
    if any(ii.fanout[i] > ii.fanout[i + 1] for i in range(255)):
        ii.problems.append("fan-out not monotone")
    for b in range(256):
        cnt = sum(1 for nm in ii.names if nm[0] <= b)
        if ii.fanout[b] != cnt:
            ii.problems.append("fan-out[%d]=%d but %d names <= that byte" % (b, ii.fanout[b], cnt))
            break
    if any(ii.names[i] >= ii.names[i + 1] for i in range(len(ii.names) - 1)):
        ii.problems.append("names not strictly sorted")
    return ii
