"""Deterministic scheduler over fsint yield points + stateless DFS / random exploration of schedules.

Actors are threads; exactly one runs at a time; control changes hands only at *hot* interposed calls
(the hook runs before the real call, so an actor parked at a yield point has a pending, not yet executed,
call).  A schedule is the sequence of actor choices; a run is replayable from its choice list.
"""
import threading
import time
import traceback

from . import fsint

STEP_TIMEOUT = 30.0


class ActorState:
    def __init__(self, name, fn):
        self.name = name
        self.fn = fn
        self.go = threading.Event()
        self.parked = threading.Event()
        self.finished = False
        self.result = None
        self.exc = None
        self.pending = None   # event about to be executed
        self.thread = None
        self.steps = 0


class Inconclusive(Exception):
    pass


class Run:
    """One execution of a scenario under a given schedule prefix."""

    def __init__(self, layer, actors, prefix=(), on_step=None, step_cap=4000, default="nonpreemptive", rng=None, fault=None, policy=None):
        self.layer = layer
        self.actors = {n: ActorState(n, f) for n, f in actors.items()}
        self.order = list(actors)
        self.prefix = list(prefix)
        self.on_step = on_step
        self.step_cap = step_cap
        self.default = default
        self.rng = rng
        self.trace = []        # (enabled tuple, chosen, current)
        self.fault = fault     # callable(ev) -> exception or None
        self.policy = policy   # callable(run, enabled, current) -> actor name or None: a directed schedule (overrides prefix/default)
        layer.hook = self._hook

    # runs in actor threads
    def _hook(self, ev):
        st = self.actors.get(ev["actor"])
        if st is None:
            return
        if self.fault is not None:
            exc = self.fault(ev)
            if exc is not None:
                ev["injected"] = type(exc).__name__
                raise exc
        if not ev.get("hot", True):
            return
        st.pending = ev
        st.parked.set()
        if not st.go.wait(STEP_TIMEOUT * 4):
            raise Inconclusive("actor %s never rescheduled" % st.name)
        st.go.clear()
        st.pending = None

    def _body(self, st):
        self.layer.register_actor(st.name)
        try:
            if not st.go.wait(STEP_TIMEOUT * 4):
                return
            st.go.clear()
            try:
                st.result = st.fn()
            except BaseException as e:  # noqa: BLE001 - outcomes of actors are data
                st.exc = e
                st.tb = traceback.format_exc()
        finally:
            st.finished = True
            self.layer.unregister_actor()
            st.parked.set()

    def execute(self):
        for st in self.actors.values():
            st.thread = threading.Thread(target=self._body, args=(st,), daemon=True)
            st.thread.start()
        current = None
        step = 0
        started = set()
        while True:
            enabled = [n for n in self.order if not self.actors[n].finished]
            if not enabled:
                break
            if step >= self.step_cap:
                raise Inconclusive("step cap reached")
            directed = self.policy(self, enabled, current) if self.policy is not None else None
            if directed in enabled:
                chosen = directed
            elif step < len(self.prefix) and self.prefix[step] in enabled:
                chosen = self.prefix[step]
            elif self.default == "random" and self.rng is not None:
                chosen = self.rng.choice(enabled)
            elif current in enabled:
                chosen = current
            else:
                chosen = enabled[0]
            self.trace.append((tuple(enabled), chosen, current))
            st = self.actors[chosen]
            executed = st.pending
            st.parked.clear()
            st.go.set()
            if not st.parked.wait(STEP_TIMEOUT):
                raise Inconclusive("actor %s did not reach a yield point within %ss" % (chosen, STEP_TIMEOUT))
            st.steps += 1
            if self.on_step is not None:
                self.on_step(chosen, executed, self)
            current = chosen
            step += 1
        for st in self.actors.values():
            st.thread.join(5)
        return self

    def choices(self):
        return [t[1] for t in self.trace]

    def preemptions(self, upto=None, alt=None):
        """number of context switches away from a still-enabled actor in trace[:upto] (+ alt at position upto)"""
        n = 0
        tr = self.trace if upto is None else self.trace[:upto]
        for enabled, chosen, cur in tr:
            if cur is not None and cur in enabled and chosen != cur:
                n += 1
        if alt is not None and upto is not None and upto < len(self.trace):
            enabled, chosen, cur = self.trace[upto]
            if cur is not None and cur in enabled and alt != cur:
                n += 1
        return n


def explore(make_run, max_runs, preempt_bound=None, rng=None, time_budget=None):
    """Stateless DFS over schedules.  make_run(prefix) -> Run (already executed) or raises Inconclusive.
    Yields each Run.  When max_runs is hit the remaining frontier is sampled at random."""
    stack = [[]]
    runs = 0
    t0 = time.time()
    frontier_dropped = 0
    while stack:
        if runs >= max_runs or (time_budget and time.time() - t0 > time_budget):
            frontier_dropped = len(stack)
            break
        if rng is not None and runs > max_runs // 2 and len(stack) > 1:
            i = rng.randrange(len(stack))
            stack[i], stack[-1] = stack[-1], stack[i]
        prefix = stack.pop()
        try:
            run = make_run(prefix)
        except Inconclusive as e:
            yield ("inconclusive", prefix, str(e))
            runs += 1
            continue
        runs += 1
        yield ("run", prefix, run)
        for i in range(len(prefix), len(run.trace)):
            enabled, chosen, cur = run.trace[i]
            for a in enabled:
                if a == chosen:
                    continue
                if preempt_bound is not None and run.preemptions(i, a) > preempt_bound:
                    continue
                stack.append(run.choices()[:i] + [a])
    yield ("end", None, {"runs": runs, "frontier_dropped": frontier_dropped, "exhausted": not stack and frontier_dropped == 0})
