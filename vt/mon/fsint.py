"""File-system interposition at system-call granularity, applied from the harness by attribute replacement.

dulwich reaches the kernel only through `os.*`, `builtins.open`/`io.open`, `os.fdopen`, `tempfile`, `shutil`
(all resolved through module attributes at call time), so wrapping those names observes and controls every
file-system call of the code under test without touching /repo.

Every wrapped call on a path under `root`, made by a thread registered as an *actor*, produces an event
    {"actor", "n", "op", "path", "path2", "mut": bool, ...}
and runs   hook(event)   *before* the real call: the hook is where the scheduler yields, faults are raised and
crash snapshots are taken.  Files opened for writing are wrapped by a proxy that turns write/flush/truncate/
close into events and pushes each write to the OS immediately (so the directory content at an event is exactly
what a process crash before that event leaves behind).
"""
import builtins
import io
import os
import threading

_real = {}
_layer = None
_tls = threading.local()

MUTATING = {"creat", "open-w", "write", "truncate", "rename", "replace", "remove", "link", "symlink", "mkdir", "rmdir", "chmod", "utime",
            "fsync", "close-w"}


def real(name):
    return _real.get(name) or getattr(os, name)


class Bypass:
    """with Bypass(): harness code runs against the real functions without producing events."""

    def __enter__(self):
        self.prev = getattr(_tls, "bypass", 0)
        _tls.bypass = self.prev + 1

    def __exit__(self, *a):
        _tls.bypass = self.prev


class Layer:
    def __init__(self, root, hook=None, hot=None):
        self.root = os.path.realpath(os.fsdecode(root))
        self.hook = hook
        self.hot = hot          # callable(path str) -> bool, or None = everything under root
        self.log = []
        self.actors = {}        # thread ident -> actor name
        self.counter = 0
        self.fdpaths = {}       # fd -> path (for os.fdopen / fsync by fd)
        self.lock = threading.Lock()

    # ---- actors
    def register_actor(self, name):
        self.actors[threading.get_ident()] = name

    def unregister_actor(self):
        self.actors.pop(threading.get_ident(), None)

    def actor(self):
        if getattr(_tls, "bypass", 0):
            return None
        return self.actors.get(threading.get_ident())

    def rel(self, path):
        try:
            p = os.fsdecode(path) if not isinstance(path, int) else self.fdpaths.get(path)
        except TypeError:
            return None
        if p is None:
            return None
        if not os.path.isabs(p):
            p = os.path.join(_real_getcwd(), p)
        p = os.path.normpath(p)
        if p == self.root:
            return "."
        if p.startswith(self.root + os.sep):
            return p[len(self.root) + 1:]
        return None

    def event(self, op, path, path2=None, **kw):
        """Called by wrappers before the real call. Returns the event (or None when not observed)."""
        a = self.actor()
        if a is None:
            return None
        r = self.rel(path)
        r2 = self.rel(path2) if path2 is not None else None
        if r is None and r2 is None:
            return None
        ev = {"actor": a, "op": op, "path": r, "mut": op in MUTATING}
        if r2 is not None:
            ev["path2"] = r2
        ev.update(kw)
        ev["hot"] = True if self.hot is None else bool(self.hot(r or "") or (r2 is not None and self.hot(r2)))
        with self.lock:
            self.counter += 1
            ev["n"] = self.counter
            self.log.append(ev)
        if self.hook is not None:
            self.hook(ev)       # may block (scheduler), raise (fault) or copy the tree (crash snapshot)
        return ev

    def done(self, ev, exc=None):
        if ev is not None and exc is not None:
            ev["err"] = type(exc).__name__


def _real_getcwd():
    return _real["getcwd"]() if "getcwd" in _real else os.getcwd()


# ------------------------------------------------------------------------------ file proxy
class WFile:
    """Proxy for a file object open for writing under the root.

    It *owns* the user-space buffering (like io.BufferedWriter): write() only appends to a pending buffer (event
    "write-buffered", nothing reaches the OS); the pending bytes are pushed to the OS -- event "write", a mutating
    call -- when the buffer would overflow, on flush(), on close(), and before seek()/read().  fsync() does NOT push
    them.  The directory content at any event is therefore exactly what the kernel holds at that instant, and data
    a program forgot to flush before fsync/rename is missing from crash states as it would be in reality."""

    def __init__(self, f, path, layer, bufsize=8192):
        d = object.__setattr__
        d(self, "_f", f)
        d(self, "_path", path)
        d(self, "_layer", layer)
        d(self, "_wclosed", False)
        d(self, "_pending", [])
        d(self, "_npending", 0)
        d(self, "_bufsize", bufsize)

    def _push(self, why):
        if not self._pending:
            return
        data = b"".join(self._pending)
        ev = self._layer.event("write", self._path, size=len(data), why=why)
        object.__setattr__(self, "_pending", [])
        object.__setattr__(self, "_npending", 0)
        try:
            self._f.write(data)
            self._f.flush()
        except BaseException as e:
            self._layer.done(ev, e)
            raise

    def write(self, data):
        if isinstance(data, str):   # text-mode file: pass through, visible at once
            ev = self._layer.event("write", self._path, size=len(data), why="text")
            n = self._f.write(data)
            self._f.flush()
            return n
        data = bytes(data)
        if self._bufsize == 0:
            ev = self._layer.event("write", self._path, size=len(data), why="unbuffered")
            n = self._f.write(data)
            self._f.flush()
            return n
        if self._npending + len(data) > self._bufsize:
            self._push("buffer-full")
        self._layer.event("write-buffered", self._path, size=len(data))
        self._pending.append(data)
        object.__setattr__(self, "_npending", self._npending + len(data))
        if self._npending > self._bufsize:
            self._push("buffer-full")
        return len(data)

    def writelines(self, lines):
        for l in lines:
            self.write(l)

    def flush(self):
        ev = self._layer.event("flush", self._path)
        self._push("flush")
        return self._f.flush()

    def truncate(self, *a):
        self._push("truncate")
        ev = self._layer.event("truncate", self._path)
        return self._f.truncate(*a)

    def seek(self, *a):
        self._push("seek")
        return self._f.seek(*a)

    def read(self, *a):
        self._push("read")
        return self._f.read(*a)

    def readinto(self, *a):
        self._push("read")
        return self._f.readinto(*a)

    def readline(self, *a):
        self._push("read")
        return self._f.readline(*a)

    def tell(self):
        return self._f.tell() + self._npending

    def close(self):
        if not self._wclosed and not self._f.closed:
            object.__setattr__(self, "_wclosed", True)
            try:
                self._push("close")
                ev = self._layer.event("close-w", self._path)
            except BaseException:
                # like BufferedWriter.close(): a failing final flush still closes the descriptor, then re-raises
                try:
                    self._f.close()
                except Exception:
                    pass
                raise
        object.__setattr__(self, "_wclosed", True)
        try:
            self._layer.fdpaths.pop(self._f.fileno(), None)   # the descriptor number may be reused by another file
        except (OSError, ValueError):
            pass
        return self._f.close()

    def __enter__(self):
        return self

    def __exit__(self, *a):
        self.close()

    def __iter__(self):
        self._push("read")
        return iter(self._f)

    def __getattr__(self, name):
        return getattr(self._f, name)

    def __setattr__(self, name, value):
        setattr(self._f, name, value)


# ------------------------------------------------------------------------------ wrappers
def _wrap_simple(name, op, npaths=1):
    orig = getattr(os, name)
    _real[name] = orig

    def w(*a, **kw):
        L = _layer
        if L is None or L.actor() is None:
            return orig(*a, **kw)
        p1 = a[0] if a else kw.get("path", kw.get("src"))
        p2 = (a[1] if len(a) > 1 else kw.get("dst")) if npaths == 2 else None
        ev = L.event(op, p1, p2)
        try:
            return orig(*a, **kw)
        except BaseException as e:
            L.done(ev, e)
            raise
    w.__name__ = name
    return w


def _os_open(path, flags, mode=0o777, *, dir_fd=None):
    orig = _real["open"]
    L = _layer
    if L is None or L.actor() is None or dir_fd is not None:
        return orig(path, flags, mode) if dir_fd is None else orig(path, flags, mode, dir_fd=dir_fd)
    acc = flags & (os.O_WRONLY | os.O_RDWR)
    if flags & os.O_CREAT:
        op = "creat"
    elif acc or flags & os.O_TRUNC:
        op = "open-w"
    else:
        op = "open-r"
    ev = L.event(op, path, excl=bool(flags & os.O_EXCL), trunc=bool(flags & os.O_TRUNC))
    try:
        fd = orig(path, flags, mode)
    except BaseException as e:
        L.done(ev, e)
        raise
    if ev is not None:
        L.fdpaths[fd] = os.path.join(L.root, ev["path"]) if ev["path"] != "." else L.root
        ev["fd"] = fd
    return fd


def _os_close(fd):
    L = _layer
    if L is not None:
        L.fdpaths.pop(fd, None)
    return _real["close"](fd)


def _os_write(fd, data):
    L = _layer
    if L is not None and L.actor() is not None and fd in L.fdpaths:
        ev = L.event("write", fd, size=len(data))
    return _real["write"](fd, data)


def _os_fsync(fd):
    L = _layer
    if L is not None and L.actor() is not None:
        f = fd if isinstance(fd, int) else fd.fileno()
        if f in L.fdpaths:
            ev = L.event("fsync", f)
            try:
                return _real["fsync"](fd)
            except BaseException as e:
                L.done(ev, e)
                raise
    return _real["fsync"](fd)


def _io_open(file, mode="r", buffering=-1, encoding=None, errors=None, newline=None, closefd=True, opener=None):
    orig = _real["io.open"]
    L = _layer
    if L is None or L.actor() is None or opener is not None:
        return orig(file, mode, buffering, encoding, errors, newline, closefd, opener)
    writing = any(c in mode for c in "wax+")
    if isinstance(file, int):
        f = orig(file, mode, buffering, encoding, errors, newline, closefd, opener)
        if writing and file in L.fdpaths:
            return WFile(f, L.fdpaths[file], L, bufsize=0 if buffering == 0 else 8192)
        return f
    r = L.rel(file)
    if r is None:
        return orig(file, mode, buffering, encoding, errors, newline, closefd, opener)
    if writing:
        op = "creat" if ("w" in mode or "x" in mode or "a" in mode) else "open-w"
        ev = L.event(op, file, excl="x" in mode, trunc="w" in mode)
        try:
            f = orig(file, mode, buffering, encoding, errors, newline, closefd, opener)
        except BaseException as e:
            L.done(ev, e)
            raise
        try:
            L.fdpaths[f.fileno()] = os.path.join(L.root, r)
        except (OSError, ValueError):
            pass
        return WFile(f, file, L, bufsize=0 if buffering == 0 else 8192)
    ev = L.event("open-r", file)
    try:
        return orig(file, mode, buffering, encoding, errors, newline, closefd, opener)
    except BaseException as e:
        L.done(ev, e)
        raise


SIMPLE = [("rename", "rename", 2), ("replace", "replace", 2), ("remove", "remove", 1), ("unlink", "remove", 1), ("link", "link", 2),
          ("symlink", "symlink", 2), ("mkdir", "mkdir", 1), ("rmdir", "rmdir", 1), ("stat", "stat", 1), ("lstat", "stat", 1),
          ("listdir", "listdir", 1), ("scandir", "listdir", 1), ("chmod", "chmod", 1), ("utime", "utime", 1), ("truncate", "truncate", 1),
          ("readlink", "readlink", 1), ("access", "stat", 1)]


def install(layer):
    global _layer
    assert _layer is None, "fsint already installed"
    _real["getcwd"] = os.getcwd
    for name, op, n in SIMPLE:
        setattr(os, name, _wrap_simple(name, op, n))
    _real["open"] = os.open
    os.open = _os_open
    _real["close"] = os.close
    os.close = _os_close
    _real["write"] = os.write
    os.write = _os_write
    _real["fsync"] = os.fsync
    os.fsync = _os_fsync
    _real["io.open"] = io.open
    io.open = _io_open
    builtins.open = _io_open
    _layer = layer
    return layer


def uninstall():
    global _layer
    _layer = None
    for name, op, n in SIMPLE:
        if name in _real:
            setattr(os, name, _real[name])
    for k in ("open", "close", "write", "fsync"):
        if k in _real:
            setattr(os, k, _real[k])
    if "io.open" in _real:
        io.open = _real["io.open"]
        builtins.open = _real["io.open"]
    _real.clear()


# ------------------------------------------------------------------------------ helpers using the real functions
def snapshot_tree(src, dst):
    """Copy a small directory tree with the real functions (no events)."""
    import shutil
    with Bypass():
        shutil.copytree(src, dst, symlinks=True)


def read_file(path):
    with Bypass():
        try:
            with _real.get("io.open", io.open)(path, "rb") as f:
                return f.read()
        except (FileNotFoundError, IsADirectoryError, NotADirectoryError):
            return None
