"""Crash-isolating worker pool.  Each worker is a subprocess running vt.worker; a case is one
JSON line in, one JSON line out.  A worker that dies, panics or times out yields an *outcome*
for the case it was running (that is what C03/C04/C15/C19 observe) and is restarted.

Outcome: {"status": "ok", "result": <run_case return>, "cpu": s, "rss_kb": peak delta}
         {"status": "error", "exc": "Class", "msg": ...}          run_case itself raised (harness bug or reported)
         {"status": "died", "signal": n | "exit": n, "stderr": tail}
         {"status": "timeout"}                                    watchdog -> inconclusive
"""
from __future__ import annotations

import json
import os
import queue
import select
import subprocess
import sys
import threading
import time

from . import core


class Worker:
    def __init__(self, module, env, rlimit_as=None, cpu_limit=None):
        self.module = module
        self.env = env
        self.rlimit_as = rlimit_as
        self.cpu_limit = cpu_limit
        self.p = None
        self.start()

    def start(self):
        args = [core.PY, "-u", "-m", "vt.worker", self.module]
        if self.rlimit_as:
            args += ["--rlimit-as", str(self.rlimit_as)]
        if self.cpu_limit:
            args += ["--rlimit-cpu", str(self.cpu_limit)]
        import tempfile
        fd, self.errpath = tempfile.mkstemp(prefix="vt-worker-err-", dir=core.scratch_root())
        self.errf = os.fdopen(fd, "wb")
        # stderr goes to a file, never a pipe: a worker blocked on a full stderr pipe while the parent is
        # blocked writing a large case to its stdin would deadlock (seen with thousands of Rust panic messages)
        self.p = subprocess.Popen(args, stdin=subprocess.PIPE, stdout=subprocess.PIPE, stderr=self.errf,
                                  env=self.env, cwd=core.ROOT)
        self.buf = b""
        self.err_tail = b""

    def _drain_err(self):
        try:
            with open(self.errpath, "rb") as f:
                f.seek(0, 2)
                n = f.tell()
                f.seek(max(0, n - 4000))
                self.err_tail = f.read()
        except OSError:
            pass

    def kill(self):
        try:
            self.p.kill()
        except OSError:
            pass
        try:
            self.p.wait(timeout=10)
        except Exception:
            pass
        for f in (self.p.stdin, self.p.stdout, self.errf):
            try:
                f.close()
            except Exception:
                pass
        try:
            os.unlink(self.errpath)
        except OSError:
            pass

    def run(self, case, timeout):
        line = (json.dumps(case) + "\n").encode()
        try:
            self.p.stdin.write(line)
            self.p.stdin.flush()
        except (BrokenPipeError, OSError):
            return self._dead()
        deadline = time.time() + timeout
        fd = self.p.stdout.fileno()
        while True:
            nl = self.buf.find(b"\n")
            if nl >= 0:
                out, self.buf = self.buf[:nl], self.buf[nl + 1:]
                try:
                    return json.loads(out)
                except ValueError:
                    return {"status": "error", "exc": "ProtocolGarbage", "msg": out[:200].decode(errors="replace")}
            left = deadline - time.time()
            if left <= 0:
                try:
                    import signal
                    self.p.send_signal(signal.SIGUSR1)
                    time.sleep(0.5)
                except Exception:
                    pass
                self._drain_err()
                tail = self.err_tail[-1500:].decode(errors="replace")
                self.kill()
                self.start()
                return {"status": "timeout", "stack": tail}
            r, _, _ = select.select([fd], [], [], min(left, 1.0))
            if fd in r:
                d = os.read(fd, 1 << 20)
                if not d:
                    return self._dead()
                self.buf += d

    def _dead(self):
        try:
            rc = self.p.wait(timeout=10)
        except Exception:
            self.p.kill()
            rc = self.p.wait()
        self._drain_err()
        tail = self.err_tail[-1500:].decode(errors="replace")
        self.kill()
        self.start()
        if rc < 0:
            return {"status": "died", "signal": -rc, "stderr": tail}
        return {"status": "died", "exit": rc, "stderr": tail}

    def stats(self):
        try:
            self.p.stdin.write(b'{"__stats__": 1}\n')
            self.p.stdin.flush()
            r = self.run_read(10)
            return r
        except Exception:
            return None

    def run_read(self, timeout):
        deadline = time.time() + timeout
        fd = self.p.stdout.fileno()
        while True:
            nl = self.buf.find(b"\n")
            if nl >= 0:
                out, self.buf = self.buf[:nl], self.buf[nl + 1:]
                return json.loads(out)
            left = deadline - time.time()
            if left <= 0:
                return None
            r, _, _ = select.select([fd], [], [], left)
            if fd in r:
                d = os.read(fd, 1 << 20)
                if not d:
                    return None
                self.buf += d


def worker_env(ext_table=None, block_ext=False, extra=None):
    env = dict(os.environ)
    pp = [core.ROOT, core.DEPS]
    if core.REPO != "/repo":
        pp.insert(0, core.REPO)
    env["PYTHONPATH"] = ":".join(pp)
    env["PYTHONHASHSEED"] = "0"
    env["PYTHONDONTWRITEBYTECODE"] = "1"
    env["VERIF_EXT_TABLE"] = json.dumps(ext_table or {})
    env["VERIF_EXT_BLOCK"] = "1" if block_ext else "0"
    env["VERIF_REPO"] = core.REPO
    # no Rust backtraces: symbolising one after an allocation failure under a tight RLIMIT_AS can wedge the
    # dying process (seen), turning an observable abort into a watchdog timeout
    env["RUST_BACKTRACE"] = "0"
    if extra:
        env.update(extra)
    return env


def pmap(module, cases, nproc=None, timeout=120, ext_table=None, block_ext=False, rlimit_as=None,
         cpu_limit=None, env_extra=None, on_result=None, collect_stats=None):
    """Run cases (iterable of JSON-able dicts) through `module.run_case` in nproc workers.
    Calls on_result(case, outcome) in the parent (serialised) as results arrive; returns count."""
    nproc = nproc or int(os.environ.get("VERIF_NPROC", "0")) or min(16, os.cpu_count() or 4)
    env = worker_env(ext_table, block_ext, env_extra)
    q = queue.Queue(maxsize=nproc * 4)
    lock = threading.Lock()
    n_done = [0]
    wstats = []

    def loop():
        w = Worker(module, env, rlimit_as, cpu_limit)
        try:
            while True:
                case = q.get()
                if case is None:
                    break
                out = w.run(case, timeout)
                with lock:
                    n_done[0] += 1
                    if on_result:
                        try:
                            on_result(case, out)
                        except Exception as e:  # never lose the pool because of a callback bug
                            import traceback
                            traceback.print_exc()
            if collect_stats is not None:
                s = w.stats()
                with lock:
                    if s:
                        collect_stats(s)
        finally:
            w.kill()

    threads = [threading.Thread(target=loop, daemon=True) for _ in range(nproc)]
    for t in threads:
        t.start()
    for c in cases:
        q.put(c)
    for _ in threads:
        q.put(None)
    for t in threads:
        t.join()
    return n_done[0]
