"""./check <ID> [--tier quick|thorough] [--replay PATH] | ./check --setup"""
import argparse
import importlib
import json
import os
import sys

from . import core


def main():
    ap = argparse.ArgumentParser()
    ap.add_argument("prop", nargs="?")
    ap.add_argument("--tier", default=os.environ.get("VERIF_TIER", "quick"), choices=["quick", "thorough"])
    ap.add_argument("--replay")
    ap.add_argument("--setup", action="store_true")
    ap.add_argument("--seed", type=int, default=int(os.environ.get("VERIF_SEED", "0")))
    a = ap.parse_args()
    import faulthandler
    import signal
    faulthandler.register(signal.SIGUSR1, all_threads=True)
    if os.environ.get("VERIF_WATCHDOG"):
        faulthandler.dump_traceback_later(int(os.environ["VERIF_WATCHDOG"]), exit=True)
    core.ensure_deps()
    table = core.build_ext("dev", quiet=not a.setup)
    if a.setup:
        print("deps:", os.path.isdir(os.path.join(core.DEPS, "icontract")), "ext:", sorted(table))
        return 0 if table else 1
    os.environ["VERIF_EXT_TABLE"] = json.dumps(table)
    core.install_ext(table)
    prop = a.prop.upper()
    mod = importlib.import_module("vt.checks." + prop.lower())
    if a.replay:
        rp = json.load(open(a.replay))
        res = mod.run_case(rp["case"]) if not hasattr(mod, "replay") else mod.replay(rp["case"])
        viol = (res or {}).get("viol") or []
        print(json.dumps(res, indent=1, default=repr)[:6000])
        if viol:
            print("VIOLATION property=%s replay=%s sig=%s" % (prop, a.replay, viol[0].get("sig")))
            return 1
        print("replay: no violation reproduced")
        return 0
    ctx = core.Ctx(prop, a.tier, a.seed, getattr(mod, "LEVEL", "exploration"))
    ctx.ext_table = table
    if not table:
        ctx.inconc("rust extensions could not be built; native twins not exercised")
    # every scratch directory of this run (workers inherit the variable) lives below one parent that is removed at the end, also when
    # workers had to be killed; leftovers of runs that were killed themselves are swept when older than six hours
    import atexit
    import shutil
    import tempfile
    import time
    base = os.environ.get("VERIF_SCRATCH") or tempfile.gettempdir()
    try:
        for n in os.listdir(base):
            p = os.path.join(base, n)
            if n.startswith("vt-run-") and time.time() - os.lstat(p).st_mtime > 6 * 3600:
                shutil.rmtree(p, ignore_errors=True)
    except OSError:
        pass
    run_dir = tempfile.mkdtemp(prefix="vt-run-%s-" % prop, dir=base)
    os.environ["VERIF_SCRATCH"] = run_dir
    os.environ["TMPDIR"] = run_dir          # plain tempfile users in workers and C git land there too
    tempfile.tempdir = run_dir
    atexit.register(shutil.rmtree, run_dir, True)
    fatal = mod.main(ctx)
    return ctx.finish(fatal_inconclusive=fatal)


if __name__ == "__main__":
    sys.exit(main())
