"""Worker process: python -m vt.worker <module> [--rlimit-as BYTES] [--rlimit-cpu S].
Reads one JSON case per line on stdin, answers one JSON line on the saved stdout fd."""
import json
import os
import resource
import sys
import time
import traceback


def main():
    modname = sys.argv[1]
    try:  # die with the parent
        import ctypes
        import signal
        ctypes.CDLL(None).prctl(1, signal.SIGKILL)
    except Exception:
        pass
    args = sys.argv[2:]
    import faulthandler
    import signal as _sig
    faulthandler.register(_sig.SIGUSR1, all_threads=True)  # the pool asks for a stack dump before killing a hung worker
    out = os.fdopen(os.dup(1), "w", buffering=1)
    os.dup2(2, 1)  # stray prints go to stderr
    from vt import core
    core.install_ext()
    if "--rlimit-as" in args:
        v = int(args[args.index("--rlimit-as") + 1])
        resource.setrlimit(resource.RLIMIT_AS, (v, v))
    if "--rlimit-cpu" in args:
        v = int(args[args.index("--rlimit-cpu") + 1])
        resource.setrlimit(resource.RLIMIT_CPU, (v, v + 5))
    resource.setrlimit(resource.RLIMIT_CORE, (0, 0))
    import importlib
    mod = importlib.import_module(modname)
    if hasattr(mod, "worker_init"):
        mod.worker_init()
    for line in sys.stdin:
        line = line.strip()
        if not line:
            continue
        case = json.loads(line)
        if "__stats__" in case:
            st = mod.worker_stats() if hasattr(mod, "worker_stats") else {}
            out.write(json.dumps({"status": "stats", "stats": st}) + "\n")
            continue
        t0 = time.process_time()
        try:
            res = mod.run_case(case)
            ans = {"status": "ok", "result": res}
        except Exception as e:
            ans = {"status": "error", "exc": type(e).__name__, "msg": str(e)[:500],
                   "tb": traceback.format_exc()[-1500:]}
        except BaseException as e:  # PanicException, SystemExit, KeyboardInterrupt
            ans = {"status": "error", "exc": type(e).__name__, "msg": str(e)[:500], "base": True,
                   "tb": traceback.format_exc()[-1500:]}
        ans["cpu"] = round(time.process_time() - t0, 4)
        try:
            s = json.dumps(ans, default=repr)
        except Exception as e:
            s = json.dumps({"status": "error", "exc": "Unserialisable", "msg": repr(e)})
        out.write(s + "\n")
    if hasattr(mod, "worker_exit"):
        mod.worker_exit()


if __name__ == "__main__":
    main()
