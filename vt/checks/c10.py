"""C10 — maintenance never loses reachable objects; readers survive concurrent repacks.

(1) Sequential: random repository histories (loose objects, packs, duplicates across packs, refs created /
    deleted / moved, detached HEAD, annotated tags, symlink and gitlink entries, alternates, aged files) are
    built with C git; then a random sequence of dulwich maintenance steps runs.  The closure of all refs + HEAD
    and a digest of every object are computed independently (git rev-list / cat-file) *before*; after EACH step a
    fresh Repo must return the same (type, bytes) for every closure member, `git fsck --connectivity-only`
    must pass, and the set of vanished ids must be a subset of {unreachable and older than the grace period}.
(2) Concurrent: a repacker actor and 1-2 reader actors (long-lived Repo objects, stale pack caches on
    purpose) are interleaved by vt.mon.sched at system-call granularity on objects/**; every lookup of an id
    that exists throughout must succeed with the right bytes.
"""
import os
import random
import shutil
import time

from vt import core, pool
from vt.mon import fsint, sched

LEVEL = "exploration"
_st = {}
OLD = 40 * 86400


def git_objects(d):
    lst = core.git(["cat-file", "--batch-all-objects", "--batch-check", "--unordered"], cwd=d).stdout.splitlines()
    return {l.split()[0]: l.split()[1] for l in lst}


def git_closure(d):
    """ids reachable from all refs + HEAD (independent of dulwich), with (type, bytes)."""
    revs = [b"--all"]
    h = core.git(["rev-parse", "--verify", "-q", "HEAD"], cwd=d, check=False)
    args = ["rev-list", "--objects", "--all"] + (["HEAD"] if h.returncode == 0 else [])
    ids = [l.split()[0] for l in core.git(args, cwd=d).stdout.splitlines()]
    # annotated tags pointing at non-commits etc. are included by --all --objects
    out = core.git(["cat-file", "--batch"], cwd=d, input=b"\n".join(ids) + b"\n").stdout
    objs = {}
    pos = 0
    for i in ids:
        nl = out.index(b"\n", pos)
        hdr = out[pos:nl].split()
        if len(hdr) != 3:
            pos = nl + 1
            continue
        objs[i] = (hdr[1], out[nl + 1:nl + 1 + int(hdr[2])])
        pos = nl + 1 + int(hdr[2]) + 1
    return objs


def age_everything(d, rng, frac=1.0):
    t = time.time() - OLD
    aged = 0
    for dp, dn, fn in os.walk(os.path.join(d, ".git", "objects")):
        for f in fn:
            if rng.random() <= frac:
                try:
                    os.utime(os.path.join(dp, f), (t, t))
                    aged += 1
                except OSError:
                    pass
    return aged


def build_history(d, rng, nsteps):
    """Random repository with C git. Returns feature set."""
    feats = set()
    core.git(["init", "-q", d])
    core.git(["config", "gc.auto", "0"], cwd=d)
    core.git(["config", "core.logAllRefUpdates", "false"], cwd=d)   # reflogs are outside the statement
    n = [0]

    def commit(branch=None):
        n[0] += 1
        if branch:
            r = core.git(["checkout", "-q", "-B", branch], cwd=d, check=False)
        fn = rng.choice(["a.txt", "b.txt", "dir/c.txt", "dir/sub/d.txt"])
        os.makedirs(os.path.dirname(os.path.join(d, fn)) or d, exist_ok=True)
        with open(os.path.join(d, fn), "a") as f:
            f.write("line %d %d\n" % (n[0], rng.randrange(1000)) * rng.choice([1, 30]))
        core.git(["add", "-A"], cwd=d)
        core.git(["commit", "-q", "-m", "c%d" % n[0]], cwd=d)

    commit()
    for _ in range(nsteps):
        op = rng.choice(["commit", "commit", "branch", "tag", "delbranch", "reset", "repack-keep", "repack-ad", "detach", "symlink", "gitlink",
                         "unreachable-blob", "alternate", "age", "merge", "tag-of-blob", "pack-refs", "unreachable-old-pack-young-loose", "ref-directly-below-refs"])
        try:
            if op == "commit":
                commit()
            elif op == "branch":
                core.git(["branch", "-f", "b%d" % rng.randrange(4), rng.choice(["HEAD", "HEAD~1"])], cwd=d, check=False)
                feats.add("branch")
            elif op == "tag":
                core.git(["tag", "-f", "-a", "-m", "t", "t%d" % rng.randrange(3), "HEAD"], cwd=d, check=False)
                feats.add("tag")
            elif op == "tag-of-blob":
                b = core.git(["hash-object", "-w", "--stdin"], cwd=d, input=b"tagged blob %d\n" % rng.randrange(100)).stdout.strip()
                core.git(["tag", "-f", "-a", "-m", "tb", "tb%d" % rng.randrange(2), b.decode()], cwd=d, check=False)
                feats.add("tag-of-blob")
            elif op == "delbranch":
                core.git(["checkout", "-q", "--detach"], cwd=d, check=False)
                brs = core.git(["for-each-ref", "--format=%(refname:short)", "refs/heads"], cwd=d).stdout.split()
                if len(brs) > 1:
                    core.git(["branch", "-D", rng.choice(brs).decode()], cwd=d, check=False)
                    feats.add("deleted-branch")
                brs = core.git(["for-each-ref", "--format=%(refname:short)", "refs/heads"], cwd=d).stdout.split()
                if brs:
                    core.git(["checkout", "-q", brs[0].decode()], cwd=d, check=False)
            elif op == "reset":
                core.git(["reset", "-q", "--hard", "HEAD~1"], cwd=d, check=False)
                feats.add("reset-unreachable")
            elif op == "repack-keep":
                core.git(["repack", "-q"], cwd=d)
                feats.add("pack+loose-duplicates")
            elif op == "repack-ad":
                core.git(["repack", "-adq"], cwd=d)
                feats.add("packed")
            elif op == "detach":
                core.git(["checkout", "-q", "--detach", "HEAD"], cwd=d, check=False)
                commit()
                feats.add("detached-head-only-commit")
            elif op == "symlink":
                p = os.path.join(d, "link%d" % rng.randrange(3))
                if not os.path.lexists(p):
                    os.symlink("target-%d" % rng.randrange(100), p)
                    core.git(["add", "-A"], cwd=d)
                    core.git(["commit", "-q", "-m", "symlink"], cwd=d)
                    feats.add("symlink-entry")
            elif op == "gitlink":
                core.git(["update-index", "--add", "--cacheinfo", "160000,%040x,sub%d" % (rng.getrandbits(160), rng.randrange(2))], cwd=d)
                core.git(["commit", "-q", "-m", "gitlink"], cwd=d)
                feats.add("gitlink-entry")
            elif op == "unreachable-blob":
                core.git(["hash-object", "-w", "--stdin"], cwd=d, input=b"unreachable %d\n" % rng.randrange(10 ** 6))
                feats.add("unreachable-object")
            elif op == "unreachable-old-pack-young-loose":
                # the same unreachable object in an old pack and as a freshly written loose file: its age is that of the youngest copy
                data = b"unreachable duplicate %d\n" % rng.randrange(10 ** 6)
                oid = core.git(["hash-object", "-w", "--stdin"], cwd=d, input=data).stdout.strip().decode()
                core.git(["repack", "-adkq"], cwd=d)
                age_everything(d, rng, 1.0)
                lp = os.path.join(d, ".git", "objects", oid[:2], oid[2:])
                if not os.path.exists(lp):
                    import zlib
                    os.makedirs(os.path.dirname(lp), exist_ok=True)
                    with open(lp, "wb") as f:
                        f.write(zlib.compress(b"blob %d\0" % len(data) + data))
                    feats.add("unreachable-old-pack-young-loose")
            elif op == "ref-directly-below-refs":
                # refs/<name> (no further directory level), as `git update-ref refs/keep <id>` makes it: keeps a commit alive that no
                # branch or tag reaches any more
                commit()
                c = core.git(["rev-parse", "HEAD"], cwd=d).stdout.strip().decode()
                core.git(["update-ref", "refs/keep%d" % rng.randrange(3), c], cwd=d)
                core.git(["reset", "-q", "--hard", "HEAD~1"], cwd=d, check=False)
                feats.add("ref-directly-below-refs")
            elif op == "alternate" and "alternate" not in feats:
                alt = d + "-alt"
                core.git(["clone", "-q", "--bare", d, alt])
                core.git(["config", "gc.auto", "0"], cwd=alt)
                # a commit that exists only in the alternate
                wt = d + "-altwt"
                core.git(["clone", "-q", alt, wt])
                with open(os.path.join(wt, "alt.txt"), "w") as f:
                    f.write("only in alternate\n")
                core.git(["add", "-A"], cwd=wt)
                core.git(["commit", "-q", "-m", "alt"], cwd=wt)
                core.git(["push", "-q", "origin", "HEAD:refs/heads/altbranch"], cwd=wt)
                c = core.git(["rev-parse", "HEAD"], cwd=wt).stdout.strip()
                shutil.rmtree(wt, ignore_errors=True)
                os.makedirs(os.path.join(d, ".git", "objects", "info"), exist_ok=True)
                with open(os.path.join(d, ".git", "objects", "info", "alternates"), "w") as f:
                    f.write(os.path.join(alt, "objects") + "\n")
                core.git(["update-ref", "refs/heads/from-alternate", c.decode()], cwd=d)
                feats.add("alternate")
            elif op == "age":
                age_everything(d, rng, rng.choice([1.0, 0.5]))
                feats.add("aged")
            elif op == "merge":
                brs = core.git(["for-each-ref", "--format=%(refname:short)", "refs/heads"], cwd=d).stdout.split()
                if len(brs) > 1:
                    core.git(["merge", "-q", "--no-edit", "-s", "ours", rng.choice(brs).decode()], cwd=d, check=False)
                    feats.add("merge")
            elif op == "pack-refs":
                core.git(["pack-refs", "--all"], cwd=d)
                feats.add("packed-refs")
        except core.GitError:
            pass
    return feats


MAINT = ["pack_loose_objects", "repack", "gc0", "gcNone", "gc-default", "gc-noprune", "porcelain.gc", "porcelain.prune", "porcelain.repack",
         "porcelain.pack_refs", "store.prune", "write_midx", "write_commit_graph", "gc0-aggressive"]


def do_maint(d, step, handle=None):
    from dulwich import porcelain
    from dulwich.gc import garbage_collect
    from dulwich.repo import Repo
    r = handle if handle is not None else Repo(d)
    try:
        if step == "pack_loose_objects":
            r.object_store.pack_loose_objects()
        elif step == "repack":
            r.object_store.repack()
        elif step == "gc0":
            garbage_collect(r, grace_period=0)
        elif step == "gc0-aggressive":
            garbage_collect(r, grace_period=0, aggressive=True)
        elif step == "gcNone":
            garbage_collect(r, grace_period=None)
        elif step == "gc-default":
            garbage_collect(r)
        elif step == "gc-noprune":
            garbage_collect(r, prune=False)
        elif step == "porcelain.gc":
            porcelain.gc(r)
        elif step == "porcelain.prune":
            porcelain.prune(r, grace_period=0)
        elif step == "porcelain.repack":
            porcelain.repack(r)
        elif step == "porcelain.pack_refs":
            porcelain.pack_refs(r, all=True)
        elif step == "store.prune":
            r.object_store.prune(grace_period=0)
        elif step == "write_midx":
            r.object_store.write_midx()
        elif step == "write_commit_graph":
            heads = [r.refs[k] for k in r.refs.keys() if k.startswith(b"refs/heads/")]
            if heads:
                r.object_store.write_commit_graph(heads, reachable=True)
    finally:
        r.close()


GRACE = {"gc0": 0, "gc0-aggressive": 0, "gcNone": None, "gc-default": 1209600, "porcelain.prune": 0, "porcelain.gc": 1209600}


def run_seq(case):
    from dulwich.repo import Repo
    if "scratch" not in _st:
        _st["scratch"] = core.Scratch("c10-")
    rng = random.Random(case["seed"])
    d = _st["scratch"].sub("h%d" % rng.randrange(10 ** 9))
    viol, stats = [], {}
    try:
        feats = build_history(d, rng, case.get("nbuild", 14))
        closure = git_closure(d)
        all_before = git_objects(d)
        unreachable = set(all_before) - set(closure)
        # which unreachable objects are old enough for the default grace period (file mtime of loose object; packed: pack mtime)
        now = time.time()
        steps = [rng.choice(MAINT) for _ in range(rng.randint(1, case.get("nmaint", 5)))]
        stats["histories"] = 1
        done = []
        for step in steps:
            mt_old = {}
            for oid in unreachable:
                p = os.path.join(d, ".git", "objects", oid[:2].decode(), oid[2:].decode())
                if os.path.exists(p):
                    mt_old[oid] = (now - os.path.getmtime(p)) > 1209600
            before = git_objects(d)
            handle = None
            refs_expected = None
            if step in ("gc0", "gcNone", "porcelain.pack_refs", "gc0-aggressive", "porcelain.prune") and rng.random() < 0.3:
                # a long-lived handle that has already looked at the refs, then another process moves a ref and re-packs the refs (the new
                # packed-refs has the same length and, usually, the same second of mtime), then the old handle runs the maintenance
                from dulwich.repo import Repo as _Repo
                handle = _Repo(d)
                handle.refs.as_dict()
                list(handle.object_store.packs)
                core.git(["pack-refs", "--all"], cwd=d)
                handle.refs.as_dict()
                brs = core.git(["for-each-ref", "--format=%(refname)", "refs/heads"], cwd=d).stdout.split()
                commits_ = core.git(["rev-list", "--all"], cwd=d).stdout.split()
                if brs and len(commits_) > 1:
                    b_ = rng.choice(brs).decode()
                    # a commit only this branch will keep alive afterwards
                    with open(os.path.join(d, "moved.txt"), "a") as f_:
                        f_.write("moved %d\n" % rng.randrange(10 ** 6))
                    core.git(["add", "-A"], cwd=d, check=False)
                    tree_ = core.git(["write-tree"], cwd=d).stdout.strip().decode()
                    newc = core.git(["commit-tree", "-m", "moved", "-p", rng.choice(commits_).decode(), tree_], cwd=d).stdout.strip().decode()
                    core.git(["update-ref", b_, newc], cwd=d)
                    core.git(["pack-refs", "--all"], cwd=d)
                    core.git(["reset", "-q"], cwd=d, check=False)
                    feats.add("live-handle-after-external-ref-move")
                closure = git_closure(d)
                before = git_objects(d)
                unreachable = set(before) - set(closure)
                refs_expected = core.git(["for-each-ref", "--format=%(refname) %(objectname)"], cwd=d).stdout
            try:
                do_maint(d, step, handle)
            except Exception as e:
                viol.append({"sig": "C10/seq/%s/raises-%s" % (step, type(e).__name__), "msg": str(e)[:150], "feats": sorted(feats), "done": done})
                break
            done.append(step + ("@live-handle" if handle is not None else ""))
            stats["maintenance_steps"] = stats.get("maintenance_steps", 0) + 1
            if refs_expected is not None:
                stats["live_handle_maintenance"] = stats.get("live_handle_maintenance", 0) + 1
                refs_now = core.git(["for-each-ref", "--format=%(refname) %(objectname)"], cwd=d).stdout
                if refs_now != refs_expected:
                    viol.append({"sig": "C10/seq/%s/maintenance-through-a-long-lived-handle-changed-ref-values" % step, "done": done})
            ftag = "+".join(sorted(f for f in feats if f in ("alternate", "gitlink-entry", "symlink-entry", "detached-head-only-commit", "tag-of-blob",
                                                              "pack+loose-duplicates", "unreachable-old-pack-young-loose", "ref-directly-below-refs", "live-handle-after-external-ref-move")))[:80]
            r = Repo(d)
            try:
                bad = 0
                for oid, (t, body) in closure.items():
                    try:
                        o = r.object_store[oid]
                        if (o.type_name, o.as_raw_string()) != (t, body):
                            viol.append({"sig": "C10/seq/%s/reachable-object-changed-content/%s" % (step, ftag), "id": oid.decode(), "done": done})
                            bad += 1
                    except KeyError:
                        viol.append({"sig": "C10/seq/%s/reachable-%s-lost/%s" % (step, t.decode(), ftag), "id": oid.decode(), "done": done, "feats": sorted(feats)})
                        bad += 1
                    except Exception as e:
                        viol.append({"sig": "C10/seq/%s/reachable-object-read-raises-%s/%s" % (step, type(e).__name__, ftag), "id": oid.decode(), "done": done})
                        bad += 1
                    if bad > 3:
                        break
                stats["closure_lookups"] = stats.get("closure_lookups", 0) + len(closure)
            finally:
                r.close()
            # objects and refs only: with core.commitGraph on, fsck also verifies the commit-graph file, which may legitimately still list
            # unreachable commits that a later prune removed (a stale accelerator is C14's subject, not object loss) - counted, not judged
            fs = core.git(["-c", "core.commitGraph=false", "fsck", "--connectivity-only", "--no-dangling", "--no-progress"], cwd=d, check=False)
            if fs.returncode == 0 and os.path.exists(os.path.join(d, "objects", "info", "commit-graph")) or os.path.exists(os.path.join(d, ".git", "objects", "info", "commit-graph")):
                if fs.returncode == 0 and core.git(["commit-graph", "verify", "--no-progress"], cwd=d, check=False).returncode != 0:
                    stats["observed_commit_graph_lists_pruned_unreachable_commits"] = stats.get("observed_commit_graph_lists_pruned_unreachable_commits", 0) + 1
            if fs.returncode != 0:
                viol.append({"sig": "C10/seq/%s/git-fsck-connectivity-fails/%s" % (step, ftag), "out": (fs.stderr + fs.stdout).decode(errors="replace")[-300:], "done": done})
            after = git_objects(d)
            vanished = set(before) - set(after)
            if vanished - unreachable:
                pass  # already reported as reachable-lost
            grace = GRACE.get(step, "no-prune")
            for oid in vanished & unreachable:
                if grace == "no-prune":
                    viol.append({"sig": "C10/seq/%s/unreachable-object-removed-by-a-step-that-should-not-prune" % step, "done": done})
                    break
                if grace not in (0, None) and not mt_old.get(oid, True):
                    viol.append({"sig": "C10/seq/%s/young-unreachable-object-removed-within-grace-period" % step, "done": done})
                    break
            stats["vanished_unreachable"] = stats.get("vanished_unreachable", 0) + len(vanished & unreachable)
            if viol:
                break
    finally:
        shutil.rmtree(d, ignore_errors=True)
        shutil.rmtree(d + "-alt", ignore_errors=True)
        shutil.rmtree(d + "-altwt", ignore_errors=True)
    seen, out = set(), []
    for v in viol:
        if v["sig"] not in seen:
            seen.add(v["sig"])
            out.append(v)
    return {"viol": out, "stats": stats, "evaluations": len(steps), "nontrivial": ["seq:%s:%s" % ("+".join(sorted(feats))[:100], ">".join(steps))],
            "sample": {"features": sorted(feats), "maintenance": steps, "closure_size": len(closure), "unreachable": len(unreachable)}}


# ------------------------------------------------------------------------------ concurrent
def hot(path):
    return path.startswith(".git/objects")


def run_conc(case):
    from dulwich.gc import garbage_collect
    from dulwich.repo import Repo
    if "scratch" not in _st:
        _st["scratch"] = core.Scratch("c10-")
    rng = random.Random(case["seed"])
    tkey = "ctmpl-" + case["layout"]
    if tkey not in _st:
        d = _st["scratch"].sub(tkey)
        trng = random.Random(case["layout"])
        core.git(["init", "-q", d])
        core.git(["config", "gc.auto", "0"], cwd=d)
        for i in range(6):
            with open(os.path.join(d, "f%d" % (i % 3)), "a") as f:
                f.write("v%d\n" % i * 20)
            core.git(["add", "-A"], cwd=d)
            core.git(["commit", "-q", "-m", "c%d" % i], cwd=d)
            if case["layout"] == "two-packs" and i in (1, 3):
                core.git(["repack", "-q"], cwd=d)
                core.git(["prune-packed"], cwd=d)
            if case["layout"] == "one-pack+loose" and i == 3:
                core.git(["repack", "-adq"], cwd=d)
            if case["layout"] == "loose+packed-duplicates" and i == 5:
                core.git(["repack", "-q"], cwd=d)          # everything packed, loose copies stay
            if case["layout"] == "midx" and i in (1, 3):
                core.git(["repack", "-q"], cwd=d)
                core.git(["prune-packed"], cwd=d)
        if case["layout"] == "midx":
            core.git(["repack", "-q"], cwd=d)
            core.git(["prune-packed"], cwd=d)
            core.git(["multi-pack-index", "write"], cwd=d)
        age_everything(d, trng, 1.0)
        _st[tkey] = d
        _st[tkey + "-closure"] = git_closure(d)
    tmpl = _st[tkey]
    closure = _st[tkey + "-closure"]
    ids = sorted(closure)
    loose_ids = [i for i in ids if os.path.exists(os.path.join(tmpl, ".git", "objects", i[:2].decode(), i[2:].decode()))]
    base = _st["scratch"].sub("c%d" % rng.randrange(10 ** 9))
    viol, stats = [], {"schedules": 0, "inconclusive_runs": 0, "reader_lookups": 0}
    runno = [0]
    n_inter = 0
    sample = None
    gaps = 0

    def make_run(prefix):
        runno[0] += 1
        root = os.path.join(base, "r%d" % runno[0])
        shutil.copytree(tmpl, root, symlinks=True)
        layer = fsint.Layer(root, hot=hot)
        misses = []
        lookups = [0]
        iter_gaps = [0]
        # readers open their repository first (outside the schedule): their pack cache is what was on disk then
        readers = {}
        for i in range(case["readers"]):
            readers["R%d" % i] = Repo(root)
            if case.get("warm"):
                list(readers["R%d" % i].object_store.packs)

        def mk_reader(name, seedk):
            def body():
                r = readers[name]
                rr = random.Random(seedk)
                for k in range(case.get("nlook", 6)):
                    oid = rr.choice(loose_ids if case.get("loose_only") and loose_ids else ids)
                    how = rr.choice(["in", "getitem", "get_raw", "contains", "iter"] if not case.get("loose_only") else ["getitem", "get_raw", "in"])
                    lookups[0] += 1
                    try:
                        if how == "in":
                            if oid not in r.object_store:
                                misses.append((name, how, oid.decode(), "False"))
                        elif how == "getitem":
                            o = r.object_store[oid]
                            if (o.type_name, o.as_raw_string()) != closure[oid]:
                                misses.append((name, how, oid.decode(), "wrong-bytes"))
                        elif how == "get_raw":
                            t, raw = r.object_store.get_raw(oid)
                            if raw != closure[oid][1]:
                                misses.append((name, how, oid.decode(), "wrong-bytes"))
                        elif how == "contains":
                            if not (r.object_store.contains_packed(oid) or r.object_store.contains_loose(oid)):
                                # two separate probes are not one atomic lookup: re-probe once, as __contains__ would
                                if oid not in r.object_store:
                                    misses.append((name, how, oid.decode(), "False"))
                        else:
                            seen = set(r.object_store)
                            if not set(ids) <= seen:
                                iter_gaps[0] += 1
                    except KeyError:
                        misses.append((name, how, oid.decode(), "KeyError"))
                    except Exception as e:
                        misses.append((name, how, oid.decode(), type(e).__name__))
            return body

        def repacker():
            r = Repo(root)
            try:
                w = case["work"]
                if w == "repack":
                    r.object_store.repack()
                elif w == "pack_loose":
                    r.object_store.pack_loose_objects()
                elif w == "gc0":
                    garbage_collect(r, grace_period=0)
                elif w == "repack+midx":
                    r.object_store.repack()
                    r.object_store.write_midx()
                elif w == "pack_loose+repack":
                    # two maintenance steps in a row: a reader's single lookup may be overtaken by both
                    r.object_store.pack_loose_objects()
                    r.object_store.repack()
                elif w == "git-prune-packed":
                    # what C git's prune-packed (run by `git repack -d` / `git gc`) does, call by call, so that the scheduler can
                    # interleave it: unlink every loose object that is also packed, then rmdir the fan-out directory once it is empty
                    od = os.path.join(root, ".git", "objects")
                    for fan in sorted(os.listdir(od)):
                        if len(fan) != 2:
                            continue
                        fd_ = os.path.join(od, fan)
                        for rest in sorted(os.listdir(fd_)):
                            if r.object_store.contains_packed((fan + rest).encode()):
                                os.unlink(os.path.join(fd_, rest))
                        try:
                            os.rmdir(fd_)
                        except OSError:
                            pass
            finally:
                r.close()
        actors = {"W": repacker}
        if case["work"] == "pack_loose||repack":
            # two maintenance processes (either order is legitimate); as separate actors the reader can be overtaken by both within the
            # preemption bound
            def w1():
                r1 = Repo(root)
                try:
                    r1.object_store.pack_loose_objects()
                finally:
                    r1.close()

            def w2():
                r2 = Repo(root)
                try:
                    r2.object_store.repack()
                finally:
                    r2.close()
            actors = {"W": w1, "V": w2}
        for i, name in enumerate(readers):
            actors[name] = mk_reader(name, "%s/%d" % (case["seed"], i))
        fsint.install(layer)
        try:
            run = sched.Run(layer, actors, prefix=prefix, step_cap=30000)
            run.execute()
        finally:
            fsint.uninstall()
            for r in readers.values():
                r.close()
        run.misses = misses
        run.lookups = lookups[0]
        run.iter_gaps = iter_gaps[0]
        run.root = root
        return run

    for kind, prefix, run in sched.explore(make_run, case["max_runs"], case.get("bound", 2), rng):
        if kind == "end":
            stats["exploration_runs"] = run["runs"]
            break
        if kind == "inconclusive":
            stats["inconclusive_runs"] += 1
            continue
        stats["schedules"] += 1
        n_inter += 1
        stats["reader_lookups"] += run.lookups
        gaps += run.iter_gaps
        for name, st in run.actors.items():
            if st.exc is not None and name in ("W", "V") and case["work"] == "pack_loose||repack":
                # two maintenance processes tripping over each other (one unlinks what the other was about to read) is not object loss
                # and not a reader failure: counted; the final-state and reader oracles below still apply
                stats["concurrent_maintainer_raised_" + type(st.exc).__name__] = stats.get("concurrent_maintainer_raised_" + type(st.exc).__name__, 0) + 1
                continue
            if st.exc is not None:
                viol.append({"sig": "C10/conc/%s/%s-raised-%s" % (case["work"], "repacker" if name in ("W", "V") else "reader-harness", type(st.exc).__name__),
                             "msg": str(st.exc)[:150], "schedule": run.choices()[:200]})
        # after the run everything must still be there
        fin = Repo(run.root)
        try:
            for oid in ids:
                if oid not in fin.object_store:
                    viol.append({"sig": "C10/conc/%s/object-lost-after-run" % case["work"]})
                    break
        finally:
            fin.close()
        for m in run.misses:
            viol.append({"sig": "C10/conc/%s/%s/reader-%s-%s" % (case["work"], case["layout"], m[1], m[3]), "schedule": run.choices()[:300], "miss": m,
                         "events": [(e["actor"], e["op"], e["path"]) for e in run.layer.log if e.get("hot")][-60:]})
        if sample is None and len(set(run.choices())) > 1:
            sample = {"work": case["work"], "layout": case["layout"], "schedule_len": len(run.choices()), "lookups": run.lookups}
        shutil.rmtree(run.root, ignore_errors=True)
        if len(viol) > 10:
            break
    shutil.rmtree(base, ignore_errors=True)
    stats["observed_iteration_gaps"] = gaps
    seen, out = set(), []
    for v in viol:
        if v["sig"] not in seen:
            seen.add(v["sig"])
            out.append(v)
    name = "%s/%s/r%d" % (case["work"], case["layout"], case["readers"])
    return {"viol": out, "stats": stats, "evaluations": stats["schedules"], "sample": sample,
            "nontrivial": ["conc:%s:%d" % (name, i) for i in range(min(n_inter, 60))]}


def run_conc_directed(case):
    """atomic-block adversary: one reader lookup of an object that is loose at the start is overtaken twice by *complete* maintenance
    steps - pack_loose_objects after the reader's k-th file-system call, repack after its m-th - for every pair k <= m. These are exactly
    the two-preemption schedules in which the maintainers run to completion, a far smaller space than the DFS explores, and the one in
    which a lookup has to cope with two generations of packs."""
    from dulwich.repo import Repo
    if "scratch" not in _st:
        _st["scratch"] = core.Scratch("c10-")
    rng = random.Random(case["seed"])
    c0 = dict(case, layout="one-pack+loose", kind="conc", readers=0, work="none", max_runs=0)
    tkey = "ctmpl-one-pack+loose"
    if tkey not in _st:
        run_conc(dict(c0, seed="tmpl"))      # builds the template as a side effect
    tmpl = _st[tkey]
    closure = _st[tkey + "-closure"]
    ids = sorted(closure)
    loose_ids = [i for i in ids if os.path.exists(os.path.join(tmpl, ".git", "objects", i[:2].decode(), i[2:].decode()))]
    base = _st["scratch"].sub("d%d" % rng.randrange(10 ** 9))
    viol, stats = [], {"schedules": 0, "inconclusive_runs": 0, "reader_lookups": 0}
    first, second = case["steps"]

    def maint(root, what):
        def body():
            r = Repo(root)
            try:
                if what == "pack_loose":
                    r.object_store.pack_loose_objects()
                elif what == "repack":
                    r.object_store.repack()
                elif what == "gc0":
                    from dulwich.gc import garbage_collect
                    garbage_collect(r, grace_period=0)
            finally:
                r.close()
        return body
    pairs = [(k, m) for k in range(0, 40) for m in range(k, k + 40)]
    if case.get("sample"):
        pairs = rng.sample(pairs, case["sample"])
    runno = 0
    r_steps_max = 0
    for oid in rng.sample(loose_ids, min(len(loose_ids), case.get("nids", 2))):
        for how in case.get("hows", ["get_raw", "getitem", "in"]):
            done_k = set()
            for k, m in sorted(pairs):
                if k > r_steps_max + 2 and r_steps_max:
                    continue
                if m > r_steps_max + 2 and r_steps_max and (k, "end") in done_k:
                    continue
                runno += 1
                root = os.path.join(base, "r%d" % runno)
                shutil.copytree(tmpl, root, symlinks=True)
                layer = fsint.Layer(root, hot=hot)
                reader = Repo(root)
                if case.get("warm"):
                    list(reader.object_store.packs)
                miss = []

                def rbody():
                    try:
                        if how == "in":
                            if oid not in reader.object_store:
                                miss.append("False")
                        elif how == "getitem":
                            o = reader.object_store[oid]
                            if (o.type_name, o.as_raw_string()) != closure[oid]:
                                miss.append("wrong-bytes")
                        else:
                            t, raw = reader.object_store.get_raw(oid)
                            if raw != closure[oid][1]:
                                miss.append("wrong-bytes")
                    except KeyError:
                        miss.append("KeyError")
                    except Exception as e:
                        miss.append(type(e).__name__)

                def policy(run, enabled, current):
                    R, W, V = run.actors["R"], run.actors["W"], run.actors["V"]
                    if R.steps < k and "R" in enabled:
                        return "R"
                    if "W" in enabled:
                        return "W"
                    if R.steps < m and "R" in enabled:
                        return "R"
                    if "V" in enabled:
                        return "V"
                    return "R" if "R" in enabled else None
                fsint.install(layer)
                try:
                    run = sched.Run(layer, {"R": rbody, "W": maint(root, first), "V": maint(root, second)}, policy=policy, step_cap=30000)
                    try:
                        run.execute()
                    except sched.Inconclusive:
                        stats["inconclusive_runs"] += 1
                        continue
                finally:
                    fsint.uninstall()
                    reader.close()
                stats["schedules"] += 1
                stats["reader_lookups"] += 1
                rs = run.actors["R"].steps
                r_steps_max = max(r_steps_max, rs)
                if m >= rs:
                    done_k.add((k, "end"))
                for name in ("W", "V"):
                    if run.actors[name].exc is not None:
                        viol.append({"sig": "C10/conc-directed/%s+%s/maintainer-raised-%s" % (first, second, type(run.actors[name].exc).__name__),
                                     "k": k, "m": m, "msg": str(run.actors[name].exc)[:120]})
                for x in miss:
                    viol.append({"sig": "C10/conc-directed/%s+%s/reader-%s-%s" % (first, second, how, x), "k": k, "m": m, "warm": bool(case.get("warm")),
                                 "events": [(e["actor"], e["op"], os.path.basename(e["path"] or "")[:18]) for e in layer.log if e.get("hot")][-50:]})
                shutil.rmtree(root, ignore_errors=True)
                if len(viol) > 5:
                    break
            if len(viol) > 5:
                break
    shutil.rmtree(base, ignore_errors=True)
    seen, out = set(), []
    for v in viol:
        if v["sig"] not in seen:
            seen.add(v["sig"])
            out.append(v)
    stats["directed_schedules"] = stats["schedules"]
    return {"viol": out, "stats": stats, "evaluations": stats["schedules"], "sample": None,
            "nontrivial": ["directed:%s+%s:%d" % (first, second, i) for i in range(min(stats["schedules"], 200))]}


def worker_exit():
    if "scratch" in _st:
        _st["scratch"].cleanup()


def run_case(case):
    return {"seq": run_seq, "conc": run_conc, "conc-directed": run_conc_directed}[case["kind"]](case)


def main(ctx):
    cases = []
    for i in range(ctx.budget(150, 1500)):
        cases.append({"kind": "seq", "seed": "%d/s/%d" % (ctx.seed, i), "nbuild": 14, "nmaint": 5})
    for work in ("repack", "pack_loose", "gc0", "repack+midx"):
        for layout in ("two-packs", "one-pack+loose", "midx"):
            for readers, warm in ((1, False), (1, True), (2, True)):
                cases.append({"kind": "conc", "seed": "%d/c/%s/%s/%d%s" % (ctx.seed, work, layout, readers, warm), "work": work, "layout": layout,
                              "readers": readers, "warm": warm, "max_runs": ctx.budget(120, 1500), "bound": 2, "nlook": 5})
    for steps in (("pack_loose", "repack"), ("pack_loose", "gc0"), ("repack", "repack")):
        for warm in (False, True):
            for how in ("get_raw", "getitem", "in"):
                cases.append({"kind": "conc-directed", "seed": "%d/cd/%s/%s/%s" % (ctx.seed, "+".join(steps), warm, how), "steps": list(steps), "warm": warm,
                              "hows": [how], "nids": 1 if not ctx.thorough else 3})
    for readers, warm in ((1, False), (1, True), (2, True)):
        cases.append({"kind": "conc", "seed": "%d/c/prune-packed/%d%s" % (ctx.seed, readers, warm), "work": "git-prune-packed", "layout": "loose+packed-duplicates",
                      "readers": readers, "warm": warm, "max_runs": ctx.budget(200, 2000), "bound": 2, "nlook": 5})
    ctx.rule = ("sequential: random git-built histories (14 build steps over 17 op kinds incl. alternates, gitlinks, symlinks, detached HEAD, tags of "
                "blobs, duplicates across packs, aged files) followed by 1..5 of 14 maintenance steps, closure re-read after every step; "
                "concurrent: 4 repacker workloads x 3 layouts + C git's prune-packed (emulated call by call) over loose+packed duplicates x reader configurations, all schedules with <=2 preemptions on objects/**. "
                "non-trivial = distinct (feature set, maintenance sequence) / distinct interleaving.")
    ctx.assumptions = ["objects reachable only from the index or reflogs are outside the statement", "gitlink targets are not objects of the repository",
                       "omissions from a full iteration during a repack are counted (observed_iteration_gaps), not judged"]

    def on_result(case, out):
        if out["status"] != "ok":
            if out["status"] == "timeout":
                ctx.inconc("timeout %s" % case["kind"])
            else:
                ctx.violation("C10/%s/harness-%s/%s" % (case["kind"], out["status"], out.get("exc")), case, out)
            return
        res = out["result"]
        ctx.merge(res)
        for v in res.get("viol", []):
            ctx.violation(v["sig"], case, v)
        if res.get("sample"):
            ctx.sample(res["sample"], case["kind"])

    pool.pmap("vt.checks.c10", cases, timeout=1800, on_result=on_result, ext_table=getattr(ctx, "ext_table", None))
    if not ctx.stats["closure_lookups"] or not ctx.stats["reader_lookups"]:
        return "monitors never reached"
    return None
