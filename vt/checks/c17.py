"""C17 — checkout never writes outside the work tree or into .git.

Runtime monitors around the real materialisation code:
  M1 audit monitor   sys.addaudithook records every mutating file-system call made during an operation (open for writing, mkdir,
                     rename, remove, rmdir, symlink, link, chmod, truncate, utime, rmtree); each path is resolved *physically* at
                     the moment of the call (realpath of the parent + name; followed target for calls that follow a final symlink).
                     A resolved location outside the work tree is a violation; one inside .git is a violation unless the innermost
                     dulwich frame belongs to git-internal writers (file/refs/object_store/pack/reflog/config/repo); calls that
                     would land outside the sandbox are blocked by raising from the hook.
  M2 snapshot        recursive snapshot (names, types, contents, modes, link targets) of the sandbox parent with canaries and of
                     the stable part of .git (config, hooks, info, description, canaries) before/after each operation.
  M3 marker scan     every hostile blob carries a unique marker; no file outside the work tree or inside .git (objects/ excepted)
                     may contain a marker afterwards.
Trees are written as raw bytes by the harness (names dulwich's own Tree.add would refuse), operations are the library's own:
WorkTree.reset_index (clone path), porcelain.clone, reset --hard / --mixed+--hard, checkout, switch, update_working_tree, stash pop of
a crafted stash, apply_patch of crafted diffs; one to three steps on top of each other, protectNTFS/protectHFS/symlinks varied.
"""
import hashlib
import os
import random
import shutil
import stat
import sys
import zlib

from vt import core, pool

LEVEL = "exploration"
_st = {}

INTERNAL_MODULES = ("dulwich.file", "dulwich.refs", "dulwich.object_store", "dulwich.pack", "dulwich.reflog", "dulwich.config", "dulwich.repo",
                    "dulwich.reftable", "dulwich.objects", "dulwich.commit_graph", "dulwich.midx", "dulwich.lfs", "dulwich.hooks")
# dulwich.index writes the index through GitFile (dulwich.file); Stash.drop rewrites its reflog with a plain open()
INTERNAL_FUNCS = {("dulwich.stash", "drop"), ("dulwich.index", "write"), ("dulwich.worktree", "_write_sparse_checkout")}


class Audit:
    def __init__(self):
        self.on = False
        self.events = []
        self.top = self.wt = self.git = self.tmp = None
        self.blocked = 0
        sys.addaudithook(self.hook)

    def start(self, top, wt, tmp):
        self.top, self.wt, self.git, self.tmp = os.path.realpath(top), os.path.realpath(wt), os.path.join(os.path.realpath(wt), ".git"), os.path.realpath(tmp)
        self.events = []
        self.on = True

    def stop(self):
        self.on = False
        ev, self.events = self.events, []
        return ev

    @staticmethod
    def _s(p):
        if isinstance(p, bytes):
            return os.fsdecode(p)
        if isinstance(p, os.PathLike):
            return os.fsdecode(os.fspath(p))
        return p

    def at(self, p, dir_fd):
        """path relative to a directory descriptor (shutil.rmtree walks that way)."""
        if dir_fd is None or dir_fd == -1 or not isinstance(dir_fd, int):
            return p
        try:
            base = os.readlink("/proc/self/fd/%d" % dir_fd)
        except OSError:
            return p
        return os.path.join(base, self._s(p))

    def phys(self, p, follow):
        p = self._s(p)
        if not isinstance(p, str):
            return None
        p = os.path.abspath(p)
        parent = os.path.realpath(os.path.dirname(p))
        loc = os.path.join(parent, os.path.basename(p)) if os.path.basename(p) else parent
        out = [loc]
        if follow and os.path.islink(loc):
            out.append(os.path.realpath(loc))
        return out

    def zone(self, loc):
        if loc == self.git or loc.startswith(self.git + os.sep):
            return "git"
        if loc == self.wt or loc.startswith(self.wt + os.sep):
            return "wt"
        if loc == self.tmp or loc.startswith(self.tmp + os.sep):
            return "tmp"
        if loc == self.top or loc.startswith(self.top + os.sep):
            return "outside"
        if loc.startswith("/dev/") or loc.startswith("/proc/"):
            return "tmp"
        return "beyond-sandbox"

    def hook(self, event, args):
        if not self.on:
            return
        paths = []
        try:
            if event == "open":
                p, mode, flags = args[0], args[1], args[2]
                if isinstance(p, int):
                    return
                if flags is None or not (flags & (os.O_WRONLY | os.O_RDWR | os.O_CREAT | os.O_TRUNC | os.O_APPEND)):
                    return
                paths = [(p, not (flags & os.O_NOFOLLOW))]
            elif event in ("os.rmdir", "os.remove"):
                paths = [(self.at(args[0], args[1]), False)]
            elif event in ("os.mkdir", "os.mkfifo", "os.mknod"):
                paths = [(self.at(args[0], args[2] if len(args) > 2 else None), False)]
            elif event == "os.rename":
                paths = [(self.at(args[0], args[2]), False), (self.at(args[1], args[3]), False)]
            elif event == "os.symlink":
                paths = [(self.at(args[1], args[2]), False)]
            elif event == "os.link":
                paths = [(self.at(args[1], args[3]), False)]
            elif event in ("os.chmod", "os.truncate", "os.utime", "os.chown", "os.chflags", "os.setxattr", "os.removexattr"):
                if isinstance(args[0], int):
                    return
                paths = [(args[0], True)]
            elif event == "shutil.rmtree":
                paths = [(args[0], False)]
            elif event in ("shutil.copyfile", "shutil.move", "shutil.copytree"):
                paths = [(args[1], True)]
            else:
                return
        except Exception:
            return
        self.on = False          # the hook itself must not be audited (realpath, frames)
        try:
            who = None
            for p, follow in paths:
                locs = self.phys(p, follow)
                if not locs:
                    continue
                for loc in locs:
                    z = self.zone(loc)
                    if z in ("wt", "tmp"):
                        continue
                    if who is None:
                        who = self.caller()
                    self.events.append({"event": event, "path": self._s(p), "resolved": loc, "zone": z, "by": who})
                    if z == "beyond-sandbox":
                        self.blocked += 1
                        raise PermissionError("C17 monitor: blocked %s on %s (resolved %s)" % (event, p, loc))
        finally:
            self.on = True

    @staticmethod
    def caller():
        f = sys._getframe(2)
        chain = []
        while f is not None:
            m = f.f_globals.get("__name__", "")
            if m.startswith("dulwich"):
                chain.append((m, f.f_code.co_name))
                if len(chain) >= 4:
                    break
            f = f.f_back
        return chain


def audit():
    if "audit" not in _st:
        _st["audit"] = Audit()
    return _st["audit"]


def worker_exit():
    if "scratch" in _st:
        _st["scratch"].cleanup()


# ------------------------------------------------------------------------------ raw objects
def raw_tree(entries):
    """entries: list of (name, mode, binsha). git order."""
    def key(e):
        return e[0] + (b"/" if stat.S_ISDIR(e[1]) or e[1] == 0o40000 else b"")
    return b"".join(b"%o %s\0" % (m, n) + s for n, m, s in sorted(entries, key=key))


def put(store, tname, body):
    from dulwich.objects import ShaFile
    num = {"blob": 3, "tree": 2, "commit": 1}[tname]
    o = ShaFile.from_raw_string(num, body)
    store.add_object(o)
    return o.id


def put_spec(store, spec, markers):
    """spec: list of (name, mode, payload) payload bytes | list(spec). returns hex tree id."""
    ents = []
    for name, mode, payload in spec:
        if isinstance(payload, list):
            sha = put_spec(store, payload, markers)
        elif mode == 0o160000:
            sha = hashlib.sha1(payload).hexdigest().encode()
        else:
            sha = put(store, "blob", payload)
        ents.append((name, mode, bytes.fromhex(sha.decode())))
    return put(store, "tree", raw_tree(ents))


def put_commit(store, tree, parents, msg=b"c"):
    body = b"tree " + tree + b"\n" + b"".join(b"parent " + p + b"\n" for p in parents) + \
        b"author A <a@b> 1700000000 +0000\ncommitter A <a@b> 1700000000 +0000\n\n" + msg + b"\n"
    return put(store, "commit", body)


SAFE = [b"a", b"b.txt", b"dir", b"sub", b"lnk", b"x y", b"\xc3\xa9", b"\xff\xfe", b"newlnk"]
INNER = [b"config", b"hooks", b"x", b"post-checkout", b"victim", b"canary.txt", b"..", b".git", b"created", b"HEAD", b"index", b"file"]


def hostile_names(top):
    absn = os.fsencode(os.path.join(top, "abs-canary"))
    return [b"..", b".", b"", b".git", b".GIT", b".Git", b".git ", b".git.", b".git. .", b"git~1", b"GIT~1", b".git::$INDEX_ALLOCATION", b".git:ads",
            b".g\xe2\x80\x8cit", b".\xe2\x80\x8dgit", b"../canary.txt", b"../../x", b"a/../../canary.txt", b".git/hooks/post-checkout", b".git/config",
            b".git/canary", b"dir/../.git/evil", b"a\\b", b"..\\canary.txt", b"\\abs", absn, absn + b"/new", b"C:", b"C:\\x", b"c:/x", b".gitmodules",
            b"con", b"aux.txt", b"lnk/x", b"newlnk/created", b"./x", b"a/./b", b"a//b", b".git/", b"../wt-shadow/victim", b"../canary-dir/file"]


def link_targets(top):
    t = os.fsencode(top)
    return [t + b"/canary.txt", t + b"/canary-dir", t + b"/wt-shadow", b"../canary.txt", b"../canary-dir", b"../wt-shadow", b"../wt-shadow/victim",
            b"../wt-shadow/created", b".git", b".git/hooks", b".git/config", b".git/canary", b"dir", b"a", b"nonexistent", b"../created-by-link", b".", b"..",
            b"../canary-dir/file", b"sub/../..", b".git/hooks/post-checkout"]


BLOB_MODES = [0o100644, 0o100644, 0o100755, 0o104755, 0o102755, 0o101644, 0o100666, 0o100777, 0o100600, 0o100000, 0o106777]
LINK_MODES = [0o120000, 0o120000, 0o120777, 0o120644]


def gen_tree(rng, top, pool_names, markers, hostility):
    """random tree spec. pool_names: the few names whose type changes between steps."""
    HN = hostile_names(top)
    LT = link_targets(top)
    spec = []
    used = set()

    def blob():
        m = b"HOSTILE-MARKER-%08x" % rng.getrandbits(32)
        markers.append(m)
        return m + b"\n" + rng.choice([b"", b"#!/bin/sh\necho pwned\n", b"[core]\n\tfsmonitor = evil\n"])

    def entry(name, depth=0):
        kind = rng.choice(["blob", "blob", "link", "dir", "dir", "gitlink"] if depth < 2 else ["blob", "link"])
        if kind == "blob":
            return (name, rng.choice(BLOB_MODES), blob())
        if kind == "link":
            return (name, rng.choice(LINK_MODES), rng.choice(LT))
        if kind == "gitlink":
            return (name, 0o160000, b"%d" % rng.getrandbits(32))
        kids = []
        ku = set()
        for _ in range(rng.randrange(1, 4)):
            n = rng.choice(INNER + (HN if rng.random() < hostility else []))
            if n in ku:
                continue
            ku.add(n)
            kids.append(entry(n, depth + 1))
        return (name, rng.choice([0o40000, 0o40000, 0o40755]), kids)

    for _ in range(rng.randrange(1, 6)):
        r = rng.random()
        if r < 0.45:
            n = rng.choice(pool_names)
        elif r < 0.45 + 0.55 * hostility:
            n = rng.choice(HN)
        else:
            n = rng.choice(SAFE)
        if n in used:
            continue
        used.add(n)
        spec.append(entry(n))
    if not spec:
        spec.append((b"a", 0o100644, blob()))
    return spec


def directed_specs(rng, top, kind, markers):
    """the sequences the quantifier names: the same name is a directory in one tree and a symlink (to a place outside the work tree
    or inside .git) in the next, in both orders; optionally the second checkout is refused half-way, and a last step goes back."""
    T = os.fsencode(top)
    N = rng.choice([b"d", b"lnk", b"b.txt", b"sub", b"x y"])
    out_dirs = [b"../wt-shadow", b"../canary-dir", T + b"/canary-dir", T + b"/wt-shadow", b".git", b".git/hooks", b".git/canary-dir", b".git/info"]
    tgt = rng.choice(out_dirs)

    def mk():
        m = b"HOSTILE-MARKER-%08x" % rng.getrandbits(32)
        markers.append(m)
        return m + b"\n"
    kids = [(rng.choice([b"victim", b"file", b"canary.txt", b"pre-commit", b"config", b"exclude"]), rng.choice([0o100644, 0o100755]), mk())]
    if rng.random() < 0.6:
        kids.append((b"sub", 0o40000, [(b"deep", 0o100644, mk())]))
    if rng.random() < 0.3:
        kids.append((b"created", 0o100644, mk()))
    keep = (b"keep", 0o100644, b"keep\n")
    as_dir = [keep, (N, 0o40000, kids)]
    as_link = [keep, (N, 0o120000, tgt)]
    as_gitlink = [keep, (N, 0o160000, b"%d" % rng.getrandbits(32))]
    as_file = [keep, (N, 0o100644, mk())]
    poison = (b"zz", 0o40000, [(rng.choice([b".git", b"..", b".GIT"]), 0o40000, [(b"x", 0o100644, mk())])])
    tail = rng.choice([[], [[keep]], [as_dir], [as_file]])
    if kind == "slash-name-after-subtree":
        # a root entry whose *name* contains slashes (a/b/c/evil) sorts after the real subtree a/: the sorted pass goes backwards into a
        # directory chain it has already left, where a/b/c is a symlink to a place outside the work tree or inside .git
        A, B, C = rng.sample([b"a", b"b", b"c", b"d", b"sub", b"x y"], 3)
        inner = [(B, 0o40000, [(C, 0o120000, tgt), (b"x", 0o100644, mk())]),
                 (C, 0o40000, [(b"y", 0o100644, mk()), (b"z", 0o100644, mk())] + ([(b"w", 0o100644, mk())] if rng.random() < 0.5 else []))]
        evil = rng.choice([b"evil", b"victim", b"file", b"pre-commit", b"config", b"created"])
        spec = [keep, (A, 0o40000, inner), (A + b"/" + B + b"/" + C + b"/" + evil, rng.choice([0o100644, 0o100755]), mk())]
        if rng.random() < 0.4:
            spec.append((A + b"/" + C + b"/" + evil, 0o100644, mk()))
        return [spec] + tail[:1]
    if kind == "dir-then-link":
        return [as_dir, as_link] + tail
    if kind == "link-then-dir":
        return [as_link, as_dir] + tail
    if kind == "dir-then-link-refused-midway":
        return [as_dir, as_link + [poison]] + (tail or [[keep]])
    if kind == "link-then-gitlink":
        return [as_link, as_gitlink] + tail
    return [as_file, as_dir, as_link] + tail[:1]


def spec_shape(spec, depth=0):
    out = []
    for n, m, p in spec:
        k = "d" if isinstance(p, list) else ("l" if stat.S_ISLNK(m) else ("g" if m == 0o160000 else "f"))
        out.append("%s:%s" % (k, n.decode("latin-1")[:24]) + ("(" + ",".join(spec_shape(p, depth + 1)) + ")" if isinstance(p, list) else ("->" + p.decode("latin-1")[-22:] if k == "l" else "")))
    return out


# ------------------------------------------------------------------------------ sandbox + snapshots
STABLE_GIT = ("config", "description", "hooks", "info", "canary", "canary-dir")


def snap(path, out=None, rel=""):
    """{relpath: (type, mode, content-hash | link target)}"""
    if out is None:
        out = {}
    try:
        names = sorted(os.listdir(path))
    except OSError:
        return out
    for n in names:
        p = os.path.join(path, n)
        r = os.path.join(rel, n)
        st = os.lstat(p)
        if stat.S_ISLNK(st.st_mode):
            out[r] = ("l", 0, os.readlink(p))
        elif stat.S_ISDIR(st.st_mode):
            out[r] = ("d", stat.S_IMODE(st.st_mode), "")
            snap(p, out, r)
        else:
            with open(p, "rb") as f:
                out[r] = ("f", stat.S_IMODE(st.st_mode), hashlib.sha1(f.read()).hexdigest())
    return out


def snap_sandbox(top, wtname="wt"):
    """everything under top except the work tree's own content; plus the stable part of wt/.git."""
    out = {}
    for n in sorted(os.listdir(top)):
        p = os.path.join(top, n)
        if n == wtname:
            continue
        st = os.lstat(p)
        if stat.S_ISDIR(st.st_mode) and not stat.S_ISLNK(st.st_mode):
            out[n] = ("d", stat.S_IMODE(st.st_mode), "")
            snap(p, out, n)
        elif stat.S_ISLNK(st.st_mode):
            out[n] = ("l", 0, os.readlink(p))
        else:
            out[n] = ("f", stat.S_IMODE(st.st_mode), hashlib.sha1(open(p, "rb").read()).hexdigest())
    g = os.path.join(top, wtname, ".git")
    if os.path.isdir(g) and not os.path.islink(g):
        for n in STABLE_GIT:
            p = os.path.join(g, n)
            if os.path.lexists(p):
                st = os.lstat(p)
                if stat.S_ISDIR(st.st_mode):
                    out[".git/" + n] = ("d", stat.S_IMODE(st.st_mode), "")
                    snap(p, out, ".git/" + n)
                elif stat.S_ISLNK(st.st_mode):
                    out[".git/" + n] = ("l", 0, os.readlink(p))
                else:
                    out[".git/" + n] = ("f", stat.S_IMODE(st.st_mode), hashlib.sha1(open(p, "rb").read()).hexdigest())
        # unexpected top-level names inside .git
        out[".git/<names>"] = ("n", 0, ",".join(sorted(x for x in os.listdir(g))))
    elif os.path.lexists(g):
        out[".git"] = ("not-a-directory", 0, "")
    return out


GIT_TOPLEVEL_OK = {"HEAD", "ORIG_HEAD", "index", "refs", "logs", "objects", "packed-refs", "config", "description", "hooks", "info", "canary", "canary-dir",
                   "branches", "MERGE_HEAD", "FETCH_HEAD", "shallow", "index.lock", "worktrees", "modules", "MERGE_MSG", "CHERRY_PICK_HEAD", "REVERT_HEAD",
                   "AUTO_MERGE", "rebase-merge", "rebase-apply"}


def scan_markers(top, markers, wtname="wt"):
    """paths outside the work tree content (incl. inside .git except objects/) that contain a hostile marker."""
    hits = []
    ms = [m for m in markers]
    if not ms:
        return hits
    for base, dirs, files in os.walk(top):
        rel = os.path.relpath(base, top)
        parts = rel.split(os.sep)
        if parts[0] == wtname:
            if len(parts) == 1:
                dirs[:] = [d for d in dirs if d == ".git"]
                continue               # files directly in the work tree are fine
            if parts[1] != ".git":
                dirs[:] = []
                continue
            if len(parts) >= 3 and parts[2] == "objects":
                dirs[:] = []
                continue
        if parts[0] in ("src.git", "tmp"):
            dirs[:] = []
            continue
        for f in files:
            p = os.path.join(base, f)
            if os.path.islink(p):
                continue
            try:
                data = open(p, "rb").read()
            except OSError:
                continue
            if b"HOSTILE-MARKER-" in data:
                hits.append(os.path.relpath(p, top))
    return hits


def make_sandbox(sc, rng):
    top = sc.sub("t%d" % rng.randrange(1 << 30))
    for n, c in (("canary.txt", b"canary\n"), ("abs-canary", b"abs canary\n")):
        with open(os.path.join(top, n), "wb") as f:
            f.write(c)
    for dname in ("canary-dir", "wt-shadow"):
        os.mkdir(os.path.join(top, dname))
    for n in ("canary-dir/file", "wt-shadow/victim"):
        with open(os.path.join(top, n), "wb") as f:
            f.write(b"victim\n")
    os.mkdir(os.path.join(top, "tmp"))
    return top


def plant_git_canaries(wt):
    g = os.path.join(wt, ".git")
    os.makedirs(os.path.join(g, "hooks"), exist_ok=True)
    with open(os.path.join(g, "hooks", "pre-commit"), "wb") as f:
        f.write(b"#!/bin/sh\nexit 0\n")
    with open(os.path.join(g, "canary"), "wb") as f:
        f.write(b"git canary\n")
    os.makedirs(os.path.join(g, "canary-dir"), exist_ok=True)
    with open(os.path.join(g, "canary-dir", "file"), "wb") as f:
        f.write(b"x\n")


# ------------------------------------------------------------------------------ patches
def gen_patch(rng, top):
    """a crafted git diff touching 1-2 paths from the hostile list."""
    T = os.fsencode(top)
    paths = [b"../canary.txt", b"../wt-shadow/victim", b"../wt-shadow/created", T + b"/abs-canary", b".git/hooks/post-checkout", b".git/config", b".git/canary",
             b"lnk", b"newlnk", b"lnk/x", b"newlnk/created", b"dir/../../canary.txt", b"a", b"dir/x", b".GIT/config", b"git~1/config", b"sub/../.git/evil",
             b"./../canary.txt", b"a\\..\\x", b".git", b"dir", b"b.txt"]
    out = []
    for _ in range(rng.choice([1, 1, 2])):
        p = rng.choice(paths)
        q = rng.choice(paths)
        marker = b"HOSTILE-MARKER-%08x" % rng.getrandbits(32)
        kind = rng.choice(["create", "create", "modify", "delete", "rename", "copy", "mode", "create-link", "modify-canary", "move-hostile-source",
                           "move-hostile-source"])
        pre = rng.choice([(b"a/", b"b/"), (b"a/", b"b/"), (b"", b"")])
        if kind == "create":
            out.append(b"diff --git %s%s %s%s\nnew file mode %s\n--- /dev/null\n+++ %s%s\n@@ -0,0 +1 @@\n+%s\n" % (pre[0], p, pre[1], p, rng.choice([b"100644", b"100755", b"104755"]), pre[1], p, marker))
        elif kind == "create-link":
            out.append(b"diff --git a/%s b/%s\nnew file mode 120000\n--- /dev/null\n+++ b/%s\n@@ -0,0 +1 @@\n+%s\n\\ No newline at end of file\n" % (p, p, p, rng.choice([b"../canary.txt", b".git/hooks", T + b"/canary-dir"])))
        elif kind == "modify":
            out.append(b"diff --git a/%s b/%s\n--- a/%s\n+++ b/%s\n@@ -1 +1 @@\n-victim\n+%s\n" % (p, p, p, p, marker))
        elif kind == "modify-canary":
            out.append(b"diff --git a/%s b/%s\n--- a/%s\n+++ b/%s\n@@ -1 +1 @@\n-canary\n+%s\n" % (p, p, p, p, marker))
        elif kind == "delete":
            out.append(b"diff --git a/%s b/%s\ndeleted file mode 100644\n--- a/%s\n+++ /dev/null\n@@ -1 +0,0 @@\n-%s\n" % (p, p, p, rng.choice([b"victim", b"canary", b"git canary"])))
        elif kind == "rename":
            out.append(b"diff --git a/%s b/%s\nsimilarity index 100%%\nrename from %s\nrename to %s\n" % (p, q, p, q))
        elif kind == "copy":
            out.append(b"diff --git a/%s b/%s\nsimilarity index 100%%\ncopy from %s\ncopy to %s\n" % (p, q, p, q))
        elif kind == "move-hostile-source":
            # only the source is hostile (a rename removes it afterwards), the destination is an ordinary new name; with and without hunks
            src = rng.choice([b".git/config", b".git/HEAD", b".git/canary", b".git/hooks/post-checkout", b"lnk/x", b"lnk/config", b"../canary.txt",
                              b"../wt-shadow/victim", b".GIT/config", b"dir/../.git/config", T + b"/abs-canary"])
            dst = rng.choice([b"stolen", b"dir/stolen", b"newdir/stolen", b"b.txt"])
            verb = rng.choice([b"rename", b"rename", b"copy"])
            # dulwich strips leading components from the rename/copy lines too: with and without the a/ b/ prefixes there
            pf = rng.choice([(b"", b""), (b"a/", b"b/"), (b"a/", b"b/")])
            body = b"diff --git a/%s b/%s\nsimilarity index %s%%\n%s from %s%s\n%s to %s%s\n" % (src, dst, rng.choice([b"100", b"90"]), verb, pf[0], src, verb, pf[1], dst)
            if rng.random() < 0.4:
                body += b"--- a/%s\n+++ b/%s\n@@ -1 +1 @@\n-%s\n+%s\n" % (src, dst, rng.choice([b"victim", b"canary", b"git canary", b"ref: refs/heads/master"]), marker)
            out.append(body)
        else:
            out.append(b"diff --git a/%s b/%s\nold mode 100644\nnew mode 100755\n" % (p, p))
    return b"".join(out), [marker]


# ------------------------------------------------------------------------------ the case
def run_case(case):
    from dulwich import porcelain
    from dulwich.index import update_working_tree
    from dulwich.repo import Repo
    rng = random.Random(case["seed"])
    if "scratch" not in _st:
        _st["scratch"] = core.Scratch("c17-")
        import logging
        logging.disable(logging.WARNING)
    sc = _st["scratch"]
    au = audit()
    top = make_sandbox(sc, rng)
    wt = os.path.join(top, "wt")
    tmp = os.path.join(top, "tmp")
    os.environ["TMPDIR"] = tmp
    import tempfile
    tempfile.tempdir = tmp
    viol, stats = [], {}
    markers = []
    driver = case.get("driver") or rng.choice(["reset_index", "reset-hard", "checkout", "update_working_tree", "clone", "stash", "patch", "mixed-then-hard", "switch"])
    hostility = rng.choice([0.2, 0.5, 0.8])
    pool_names = rng.sample(SAFE, 3)
    nsteps = rng.choice([1, 2, 2, 3, 3])
    cfg = {"protectNTFS": rng.choice([None, True, False]), "protectHFS": rng.choice([None, True, False]), "symlinks": rng.choice([None, None, True, False])}
    # --- repository with the trees
    if driver == "clone":
        src = os.path.join(top, "src.git")
        r = Repo.init_bare(src, mkdir=True)
    else:
        os.mkdir(wt)
        r = Repo.init(wt)
    try:
        store = r.object_store
        specs = [gen_tree(rng, top, pool_names, markers, hostility) for _ in range(nsteps)]
        directed = case.get("directed")
        if directed is None and rng.random() < 0.35:
            directed = rng.choice(["dir-then-link", "link-then-dir", "dir-then-link-refused-midway", "link-then-gitlink", "file-then-dir-then-link",
                                   "slash-name-after-subtree"])
        if directed:
            specs = directed_specs(rng, top, directed, markers)
            nsteps = len(specs)
        benign = [(b"a", 0o100644, b"victim\n"), (b"b.txt", 0o100644, b"canary\n"), (b"dir", 0o40000, [(b"x", 0o100644, b"victim\n")])]
        base_tree = put_spec(store, benign, markers)
        c0 = put_commit(store, base_tree, [])
        trees = [put_spec(store, s, markers) for s in specs]
        commits = []
        prev = c0
        for t in trees:
            prev = put_commit(store, t, [prev])
            commits.append(prev)
        r.refs[b"refs/heads/master"] = c0 if driver != "clone" else commits[0]
        for i, c in enumerate(commits):
            r.refs[b"refs/heads/b%d" % i] = c
        r.refs.set_symbolic_ref(b"HEAD", b"refs/heads/master")
        if driver != "clone":
            c = r.get_config()
            for k, v in cfg.items():
                if v is not None:
                    c.set((b"core",), k.encode(), b"true" if v else b"false")
            c.write_to_path()
    finally:
        r.close()
    if driver != "clone":
        plant_git_canaries(wt)
    shapes = [",".join(spec_shape(s)) for s in specs]
    # --- steps
    steps = []
    if driver == "clone":
        steps.append(("clone", None))
        for i in range(1, nsteps):
            steps.append((rng.choice(["checkout", "reset-hard"]), i))
    elif driver in ("stash", "patch"):
        for i in range(nsteps - 1):
            steps.append((rng.choice(["reset-hard", "reset_index"]), i))
        steps.append((driver, nsteps - 1))
    elif driver == "mixed-then-hard":
        for i in range(nsteps):
            steps.append(("reset-mixed", i))
            steps.append(("reset-hard", rng.choice([i, max(0, i - 1)])))
    else:
        for i in range(nsteps):
            steps.append((driver if rng.random() < 0.7 else rng.choice(["reset_index", "reset-hard", "checkout", "update_working_tree"]), i))
    # last step back to the benign base commit (recovering after a refused checkout must not follow what was left behind)
    if driver not in ("clone", "stash", "patch") and rng.random() < 0.5:
        trees.append(base_tree)
        commits.append(c0)
        shapes.append("f:a,f:b.txt,d:dir(f:x)")
        steps.append((rng.choice(["reset-hard", "checkout", "reset_index", "update_working_tree"]), len(trees) - 1))
    prev_tree = None
    outcomes = []
    for op, i in steps:
        before = snap_sandbox(top)
        patch_markers = []
        au.start(top, wt, tmp)
        outcome = "ok"
        try:
            if op == "clone":
                porcelain.clone(os.path.join(top, "src.git"), wt, errstream=open(os.devnull, "wb")).close()
            elif op == "reset_index":
                rr = Repo(wt)
                try:
                    rr.get_worktree().reset_index(trees[i])
                finally:
                    rr.close()
            elif op == "reset-hard":
                porcelain.reset(wt, "hard", commits[i])
            elif op == "reset-mixed":
                porcelain.reset(wt, "mixed", commits[i])
            elif op == "checkout":
                porcelain.checkout(wt, commits[i], force=rng.random() < 0.7)
            elif op == "switch":
                porcelain.switch(wt, b"b%d" % i, force=rng.random() < 0.7)
            elif op == "update_working_tree":
                rr = Repo(wt)
                try:
                    from dulwich.diff_tree import tree_changes
                    ch = tree_changes(rr.object_store, prev_tree, trees[i], want_unchanged=rng.random() < 0.3)
                    update_working_tree(rr, prev_tree, trees[i], change_iterator=ch, allow_overwrite_modified=True)
                finally:
                    rr.close()
            elif op == "stash":
                au.on = False        # harness set-up of the crafted stash is not the code under observation
                rr = Repo(wt)
                try:
                    head = rr.refs[b"HEAD"]
                    idx_commit = put_commit(rr.object_store, trees[rng.randrange(len(trees))], [head], b"index on master")
                    sc_ = put_commit(rr.object_store, trees[i], [head, idx_commit] if rng.random() < 0.7 else [head], b"WIP on master")
                    rr.refs[b"refs/stash"] = sc_
                    os.makedirs(os.path.join(wt, ".git", "logs", "refs"), exist_ok=True)
                    with open(os.path.join(wt, ".git", "logs", "refs", "stash"), "wb") as f:
                        f.write(b"0" * 40 + b" " + sc_ + b" A <a@b> 1700000000 +0000\tWIP on master\n")
                finally:
                    rr.close()
                au.on = True
                porcelain.stash_pop(wt)
            elif op == "patch":
                pdata, patch_markers = gen_patch(rng, top)
                markers.extend(patch_markers)
                import io
                porcelain.apply_patch(wt, io.BytesIO(pdata), strip=rng.choice([1, 1, 0]), three_way=rng.random() < 0.2)
        except (MemoryError, RecursionError) as e:
            # not this property's subject (no write happened); counted so that it stays visible
            outcome = "refused:" + type(e).__name__
            stats["observed_" + type(e).__name__] = stats.get("observed_" + type(e).__name__, 0) + 1
        except PermissionError as e:
            outcome = "refused:PermissionError" if "C17 monitor" not in str(e) else "blocked-by-monitor"
        except Exception as e:
            outcome = "refused:" + type(e).__name__
        finally:
            events = au.stop()
        if op in ("reset_index", "reset-hard", "checkout", "switch", "update_working_tree", "clone") and outcome == "ok" and i is not None:
            prev_tree = trees[i]
        elif op == "clone" and outcome == "ok":
            prev_tree = trees[0]
        after = snap_sandbox(top)
        outcomes.append(op + ":" + outcome.split(":")[0])
        stats["operations"] = stats.get("operations", 0) + 1
        stats["op_" + op + "_" + outcome.split(":")[0]] = stats.get("op_" + op + "_" + outcome.split(":")[0], 0) + 1
        stats["audit_events_classified"] = stats.get("audit_events_classified", 0) + len(events)
        tag = "%s/step%d" % (op, len(outcomes))
        # M1
        for e in events:
            by = e["by"][0] if e["by"] else ("?", "?")
            if e["zone"] in ("outside", "beyond-sandbox"):
                viol.append({"sig": "C17/%s/write-outside-work-tree/%s/by-%s.%s" % (op, e["event"], by[0], by[1]), "event": e, "tree": shapes[i] if i is not None and i < len(shapes) else None})
            elif e["zone"] == "git":
                internal = (by[0] in INTERNAL_MODULES or by in INTERNAL_FUNCS or
                            any(c[0] in ("dulwich.file", "dulwich.refs", "dulwich.reflog") for c in e["by"][:2]))
                if op == "clone" and by[0] in ("dulwich.porcelain", "dulwich.client", "dulwich.repo", "dulwich.porcelain.__init__"):
                    internal = internal or by[1] in ("clone", "init", "_init_maybe_bare", "init_bare", "_init_new_working_directory")
                if internal:
                    stats["git_internal_writes"] = stats.get("git_internal_writes", 0) + 1
                else:
                    viol.append({"sig": "C17/%s/write-into-.git/%s/by-%s.%s" % (op, e["event"], by[0], by[1]), "event": e, "tree": shapes[i] if i is not None and i < len(shapes) else None})
        # M2
        if op != "clone":
            for k in sorted(set(before) | set(after)):
                if before.get(k) != after.get(k):
                    if k == ".git/<names>":
                        newn = set((after.get(k) or ("", 0, ""))[2].split(",")) - set((before.get(k) or ("", 0, ""))[2].split(","))
                        bad = [n for n in newn if n and n not in GIT_TOPLEVEL_OK]
                        if bad:
                            viol.append({"sig": "C17/%s/new-entry-in-.git" % op, "names": bad[:5], "tree": shapes[i] if i is not None else None})
                        continue
                    where = ".git" if k.startswith(".git") else "outside"
                    what = "created" if k not in before else ("deleted" if k not in after else "changed")
                    viol.append({"sig": "C17/%s/snapshot-%s-%s" % (op, where, what), "path": k, "before": before.get(k), "after": after.get(k),
                                 "tree": shapes[i] if i is not None and i < len(shapes) else None})
                    break
        else:
            for k in sorted(set(before) | set(after)):
                if not k.startswith(".git") and before.get(k) != after.get(k):
                    viol.append({"sig": "C17/clone/snapshot-outside-changed", "path": k, "before": before.get(k), "after": after.get(k), "tree": shapes[0]})
                    break
            g = os.path.join(wt, ".git")
            if os.path.isdir(g):
                bad = [n for n in os.listdir(g) if n not in GIT_TOPLEVEL_OK]
                if bad:
                    viol.append({"sig": "C17/clone/new-entry-in-.git", "names": bad[:5], "tree": shapes[0]})
                plant_git_canaries(wt)
        # M3
        hits = scan_markers(top, markers)
        if hits:
            viol.append({"sig": "C17/%s/hostile-content-landed-%s" % (op, "in-.git" if hits[0].startswith("wt" + os.sep + ".git") else "outside"), "paths": hits[:4],
                         "tree": shapes[i] if i is not None and i < len(shapes) else None})
        if viol:
            break
    # count special permission bits on created files (observed, not judged)
    if os.path.isdir(wt):
        for base, dirs, files in os.walk(wt):
            if ".git" in dirs:
                dirs.remove(".git")
            for f in files:
                try:
                    m = os.lstat(os.path.join(base, f)).st_mode
                except OSError:
                    continue
                if stat.S_ISREG(m):
                    stats["files_materialised"] = stats.get("files_materialised", 0) + 1
                    if m & 0o7000:
                        stats["observed_setid_or_sticky_files"] = stats.get("observed_setid_or_sticky_files", 0) + 1
                elif stat.S_ISLNK(m):
                    stats["symlinks_materialised"] = stats.get("symlinks_materialised", 0) + 1
    shutil.rmtree(top, ignore_errors=True)
    seen, out = set(), []
    for v in viol:
        if v["sig"] not in seen:
            seen.add(v["sig"])
            out.append(v)
    return {"viol": out, "stats": stats, "evaluations": len(outcomes), "nontrivial": ["%s|%s|%s" % (driver, ">".join(outcomes), hashlib.sha1("|".join(shapes).encode()).hexdigest()[:10])]}


def main(ctx):
    n = ctx.budget(2500, 40000)
    cases = [{"seed": "%d/%d" % (ctx.seed, i)} for i in range(n)]
    for d in ("reset_index", "reset-hard", "checkout", "update_working_tree", "clone", "stash", "patch", "mixed-then-hard", "switch"):
        for i in range(ctx.budget(120, 1500)):
            cases.append({"seed": "%d/%s/%d" % (ctx.seed, d, i), "driver": d})
    for k in ("dir-then-link", "link-then-dir", "dir-then-link-refused-midway", "link-then-gitlink", "file-then-dir-then-link", "slash-name-after-subtree"):
        for d in ("reset-hard", "checkout", "update_working_tree", "reset_index", "mixed-then-hard", "switch", "stash", "clone"):
            for i in range(ctx.budget(12, 150)):
                cases.append({"seed": "%d/%s/%s/%d" % (ctx.seed, k, d, i), "driver": d, "directed": k})
    ctx.rule = ("random sequences of 1-3 raw-built trees (names from an adversarial alphabet of 41 names incl. '..', '', '.git' variants, NTFS/HFS aliases, "
                "embedded '/', '\\\\', absolute paths into the sandbox, drive prefixes; symlinks to absolute/parent/sibling/.git targets; set-id/sticky/"
                "world-writable/odd modes; gitlinks; nested dirs; 3 pooled names whose type changes between steps) x drivers {WorkTree.reset_index, "
                "reset --hard, reset --mixed then --hard, checkout, switch, update_working_tree, clone + later checkouts, stash pop of a crafted stash, "
                "apply_patch of crafted diffs (create/modify/delete/rename/copy/mode/symlink on hostile paths)} x core.protectNTFS/protectHFS/symlinks "
                "unset/true/false. non-trivial = distinct (driver, per-step outcome, tree shapes).")
    ctx.assumptions = ["a write inside .git counts as legitimate only when the innermost dulwich frame is a git-internal writer (file, refs, object_store, "
                       "pack, reflog, config, repo) - the materialisation code itself never has a reason to touch .git",
                       "set-id/sticky bits on materialised files are counted (observed_setid_or_sticky_files), not judged: the statement is about where "
                       "writes land",
                       "absolute hostile paths and link targets point into the sandbox; the monitor blocks anything that would land beyond it"]

    def on_result(case, out):
        if out["status"] != "ok":
            if out["status"] == "timeout":
                ctx.inconc("worker timeout: %s" % case)
            else:
                ctx.violation("C17/harness-%s/%s" % (out["status"], out.get("exc")), case, out)
            return
        res = out["result"]
        ctx.merge(res)
        for v in res.get("viol", []):
            ctx.violation(v["sig"], case, v)
        if ctx.stats["sampled"] < 4:
            ctx.sample({"case": case, "nontrivial": res["nontrivial"]}, "case")
            ctx.count("sampled")

    pool.pmap("vt.checks.c17", cases, timeout=300, on_result=on_result, ext_table=getattr(ctx, "ext_table", None))
    if ctx.stats["audit_events_classified"] < 100 and ctx.stats["git_internal_writes"] < 100:
        return "audit monitor saw too few events (%d)" % ctx.stats["audit_events_classified"]
    return None
