"""Worker module for the extension-blocked leg of C15's repository battery (no twin initialisation)."""
from vt.checks.c15 import run_repo_battery


def run_case(case):
    return run_repo_battery(case)
