"""C16 — ref backends obey one contract; the files backend matches git's own view; check_ref_format == git.

Online reference-model monitor: after every operation of a generated sequence the return value /
exception class and the full observable state (as_dict, get_symrefs, raw read_ref per name) of the real
DiskRefsContainer is compared with a map model; every k-th step C git lists the same directory
(for-each-ref, symbolic-ref) ; pack_refs / re-open must be observational no-ops.  Dict and reftable
backends are driven with the sub-language the statement names and compared with the same model.
Ref-name validity: transcription of git's check_refname_format (validated against the real binary on
every run) swept exhaustively; every disagreement with dulwich is re-confirmed with the real binary.
"""
import itertools
import os
import random
import shutil
import subprocess

from vt import core, pool

LEVEL = "exploration"
SYM = b"ref: "
ZERO = b"0" * 40
_st = {}


# ------------------------------------------------------------------------------ refname reference (refs.c)
def git_refname_ok(name: bytes) -> bool:
    if name == b"@":
        return False
    comps = name.split(b"/")
    for comp in comps:
        if len(comp) == 0:
            return False
        last = 0
        for ch in comp:
            if ch == 0x2E:
                if last == 0x2E:
                    return False
            elif ch == 0x7B:
                if last == 0x40:
                    return False
            elif ch < 0x20 or ch in b" ~^:?[\\\x7f*":
                return False
            last = ch
        if comp[0] == 0x2E:
            return False
        if comp.endswith(b".lock"):
            return False
    if name[-1:] == b".":
        return False
    if len(comps) < 2:
        return False
    return True


def real_git_ok(name: bytes) -> bool:
    r = subprocess.run(["git", "check-ref-format", name], env=core.git_env(), stdout=subprocess.DEVNULL, stderr=subprocess.DEVNULL)
    return r.returncode == 0


NAME_ALPHA = [b"a", b"/", b".", b"@", b"{", b"~", b"^", b":", b"?", b"*", b"[", b"\\", b" ", b"\x7f", b"\x1f", b"\x80", b"l", b"o", b"c", b"k"]


def name_feature(s: bytes):
    for tok, f in ((b"..", "dotdot"), (b"@{", "at-brace"), (b".lock", "dot-lock"), (b"//", "double-slash"), (b"\\", "backslash"),
                   (b"*", "star"), (b"\x7f", "del"), (b"\x1f", "ctrl"), (b" ", "space"), (b"~", "tilde"), (b"^", "caret"), (b":", "colon"),
                   (b"?", "qmark"), (b"[", "bracket"), (b"@", "at"), (b"{", "brace")):
        if tok in s:
            return f
    if s.startswith(b"/") or s.endswith(b"/"):
        return "edge-slash"
    if s.startswith(b".") or b"/." in s:
        return "leading-dot"
    if s.endswith(b"."):
        return "trailing-dot"
    if b"/" not in s:
        return "one-level"
    return "plain"


def run_names(case):
    from dulwich.refs import check_ref_format
    viol, stats, nt = [], {}, set()
    names = []
    if "prefixes" in case:
        L = case["L"]
        for pre in case["prefixes"]:
            pre = bytes.fromhex(pre)
            for t in itertools.product(NAME_ALPHA, repeat=L - len(pre)):
                names.append(pre + b"".join(t))
            names.append(pre)
    else:
        rng = random.Random(case["seed"])
        toks = [b"a", b"b/", b"/", b".", b"..", b".lock", b"lock", b"@{", b"@", b"{", b"x.lock/", b"~", b"\xff", b"heads/", b"//", b" ", b"_", b"*"]
        for _ in range(case["n"]):
            names.append(b"".join(rng.choice(toks) for _ in range(rng.randint(1, 9))))
    n_conf = 0
    for s in names:
        if not s or b"\0" in s:
            continue
        d = bool(check_ref_format(s))
        m = git_refname_ok(s)
        confirm = d != m or case.get("confirm_all")
        if confirm:
            g = real_git_ok(s) if not s.startswith(b"--") else m
            n_conf += 1
            if g != m:
                viol.append({"sig": "C16/refname/REFERENCE-MODEL-DISAGREES-WITH-GIT", "name": s.hex(), "git": g, "model": m})
            if g != d:
                viol.append({"sig": "C16/refname/%s/%s" % ("dulwich-accepts-git-rejects" if d else "dulwich-rejects-git-accepts", name_feature(s)),
                             "name": s.hex(), "git": g, "dulwich": d})
        nt.add("nm:%s:%s" % (name_feature(s), m))
    stats["names_checked"] = len(names)
    stats["names_confirmed_with_git_binary"] = n_conf
    seen, out = set(), []
    for v in viol:
        if v["sig"] not in seen:
            seen.add(v["sig"])
            out.append(v)
    return {"viol": out, "stats": stats, "nontrivial": sorted(nt), "evaluations": len(names)}


# ------------------------------------------------------------------------------ model
class Model:
    """refs: name -> raw content (40-hex sha or b'ref: target')."""

    def __init__(self):
        self.refs = {}

    def read(self, name):
        return self.refs.get(name)

    def follow(self, name):
        """-> (chain, value|None) or raises 'loop'"""
        contents = SYM + name
        depth = 0
        chain = []
        while contents and contents.startswith(SYM):
            ref = contents[len(SYM):]
            chain.append(ref)
            contents = self.refs.get(ref)
            if not contents:
                break
            depth += 1
            if depth > 5:
                raise RecursionError("loop")
        return chain, contents

    def resolve(self, name):
        try:
            _, v = self.follow(name)
        except RecursionError:
            return "LOOP"
        return v

    def df_conflict(self, name):
        """name collides with an existing ref as file-vs-directory"""
        for r in self.refs:
            if r == name:
                continue
            if r.startswith(name + b"/") or name.startswith(r + b"/"):
                return True
        return False

    def as_dict(self):
        out = {}
        for n in self.refs:
            v = self.resolve(n)
            if v and v != "LOOP":
                out[n] = v
        return out

    def symrefs(self):
        return {n: v[len(SYM):] for n, v in self.refs.items() if v.startswith(SYM)}

    # operations -> (result, applied) where result in True/False/"refused"
    def target(self, name):
        try:
            chain, _ = self.follow(name)
            return chain[-1]
        except RecursionError:
            return name

    def set_if_equals(self, name, old, new):
        t = self.target(name)
        if self.df_conflict(t) and t not in self.refs:
            return "refused"
        cur = self.refs.get(t)
        if old is not None:
            if (cur or ZERO) != old:
                return False
        self.refs[t] = new
        return True

    def add_if_new(self, name, new):
        try:
            chain, val = self.follow(name)
        except RecursionError:
            return "loop"
        if val is not None:
            return False
        t = chain[-1]
        if self.df_conflict(t):
            return "refused"
        self.refs[t] = new
        return True

    def remove_if_equals(self, name, old):
        if name not in self.refs and self.df_conflict(name):
            return "collide-noop"
        cur = self.refs.get(name)
        if old is not None and (cur or ZERO) != old:
            return False
        self.refs.pop(name, None)
        return True

    def set_symbolic_ref(self, name, other):
        if self.df_conflict(name) and name not in self.refs:
            return "refused"
        self.refs[name] = SYM + other
        return True


NAMES = [b"HEAD", b"refs/heads/a", b"refs/heads/a/b", b"refs/heads/b", b"refs/tags/t", b"refs/remotes/o/x", b"refs/heads/sym",
         b"refs/heads/sym2", b"refs/heads/c", b"refs/top"]
PLAIN_NAMES = [b"refs/heads/a", b"refs/heads/b", b"refs/tags/t", b"refs/remotes/o/x", b"refs/heads/c", b"refs/top"]
# a smaller universe dense in directory/file conflicts: two siblings below the conflicting directory (one can be deleted or stay packed-only
# while the other keeps the collision alive), a second level, and a conflict below refs/remotes
DF_NAMES = [b"HEAD", b"refs/heads/a", b"refs/heads/a/b", b"refs/heads/a/c", b"refs/heads/a/b/d", b"refs/remotes/o", b"refs/remotes/o/x", b"refs/heads/sym"]


def make_objects(d):
    """A tiny object universe made by git: commits c0..c3 and an annotated tag of c0."""
    core.git(["init", "-q", d])
    ids = []
    for i in range(4):
        with open(os.path.join(d, "f"), "w") as f:
            f.write(str(i))
        core.git(["add", "f"], cwd=d)
        core.git(["commit", "-q", "-m", "c%d" % i], cwd=d)
        ids.append(core.git(["rev-parse", "HEAD"], cwd=d).stdout.strip())
    core.git(["tag", "-a", "-m", "t", "annot", ids[0].decode()], cwd=d)
    tagid = core.git(["rev-parse", "annot"], cwd=d).stdout.strip()
    # remove all refs, leave objects; HEAD stays symbolic to refs/heads/master (unborn)
    shutil.rmtree(os.path.join(d, ".git", "refs"))
    os.makedirs(os.path.join(d, ".git", "refs", "heads"))
    os.makedirs(os.path.join(d, ".git", "refs", "tags"))
    if os.path.exists(os.path.join(d, ".git", "packed-refs")):
        os.unlink(os.path.join(d, ".git", "packed-refs"))
    shutil.rmtree(os.path.join(d, ".git", "logs"), ignore_errors=True)
    return ids + [tagid]


ALL_NAMES = NAMES + [n_ for n_ in DF_NAMES if n_ not in NAMES] + [b"refs/heads/master"]


def gen_ops(rng, n, plain, universe=None):
    ops = []
    names = PLAIN_NAMES if plain else (universe or NAMES)
    for _ in range(n):
        r = rng.random()
        name = rng.choice(names)
        if r < 0.22:
            ops.append(["set", name, None, rng.randrange(5)])
        elif r < 0.40:
            ops.append(["set", name, rng.choice(["cur", "cur", "zero", rng.randrange(5)]), rng.randrange(5)])
        elif r < 0.50:
            ops.append(["add", name, rng.randrange(5)])
        elif r < 0.60:
            # HEAD is never deleted: a repository without HEAD is not a repository for git
            ops.append(["del", rng.choice([n_ for n_ in names if n_ != b"HEAD"]), None])
        elif r < 0.68:
            ops.append(["del", rng.choice([n_ for n_ in names if n_ != b"HEAD"]), rng.choice(["cur", "cur", "zero", rng.randrange(5)])])
        elif r < 0.76 and not plain:
            src = rng.choice([b"HEAD", b"refs/heads/sym", b"refs/heads/sym2", b"refs/heads/c"])
            ops.append(["symref", src, rng.choice([n_ for n_ in (universe or NAMES) if n_ != src and n_ != b"HEAD"])])
        elif r < 0.74 and plain == "symrefs-created-not-written-through":
            # symbolic refs are created (HEAD and two dedicated names, pointing at plain names, present or not) but nothing is ever written
            # through them: every other operation of a plain sequence names a plain ref directly
            ops.append(["symref", rng.choice([b"HEAD", b"refs/heads/sym", b"refs/heads/sym2"]), rng.choice(PLAIN_NAMES)])
        elif r < 0.86:
            ops.append(["pack", rng.random() < 0.7])
        elif r < 0.93:
            ops.append(["reopen"])
        else:
            k = "setitem" if rng.random() < 0.5 else "delitem"
            ops.append([k, name if k == "setitem" else rng.choice([n_ for n_ in names if n_ != b"HEAD"]), rng.randrange(5)])
    return ops


def Model_target(refs, name):
    m = Model()
    m.refs = refs
    return m.target(name)


def classify_exc(e):
    return type(e).__name__


def observe(refs, names):
    """Observable state of a real container."""
    out = {"dict": None, "symrefs": None, "raw": {}}
    try:
        out["dict"] = dict(refs.as_dict())
    except Exception as e:
        out["dict"] = "raise:" + type(e).__name__
    try:
        out["symrefs"] = dict(refs.get_symrefs())
    except Exception as e:
        out["symrefs"] = "raise:" + type(e).__name__
    for n in names:
        try:
            out["raw"][n] = refs.read_ref(n)
        except Exception as e:
            out["raw"][n] = "raise:" + type(e).__name__
    return out


def run_seq(case):
    from dulwich.refs import DictRefsContainer, DiskRefsContainer
    from dulwich.repo import Repo
    if "scratch" not in _st:
        _st["scratch"] = core.Scratch("c16-")
        _st["tmpl"] = _st["scratch"].sub("tmpl")
        _st["ids"] = make_objects(_st["tmpl"])
    ids = _st["ids"]
    rng = random.Random(case["seed"])
    plain = case.get("plain", False)
    ops = case.get("ops") or gen_ops(rng, case.get("n", 25), plain, DF_NAMES if case.get("universe") == "df" else None)
    d = _st["scratch"].sub("r%d" % rng.randrange(10 ** 9))
    shutil.copytree(_st["tmpl"], d, dirs_exist_ok=True, symlinks=True)
    gitdir = os.path.join(d, ".git")
    viol, stats, feats, soft = [], {}, set(), []
    model = Model()
    model.refs[b"HEAD"] = SYM + b"refs/heads/master"
    backends = {"files": DiskRefsContainer(gitdir)}
    # a second long-lived handle on the same directory (another process that opened the repository earlier): operations alternate between
    # the two, and after every operation both must show the state the model predicts (no stale packed-refs view)
    other_handle = DiskRefsContainer(gitdir) if case.get("two_handles") else None
    if other_handle is not None:
        other_handle.as_dict()
    acting = [0]
    if plain:
        backends["dict"] = DictRefsContainer({b"HEAD": SYM + b"refs/heads/master"})
        if case.get("reftable"):
            try:
                from dulwich.reftable import ReftableRefsContainer
                rd = _st["scratch"].sub("rt%d" % rng.randrange(10 ** 9))
                rt = ReftableRefsContainer(rd)
                rt.set_symbolic_ref(b"HEAD", b"refs/heads/master")
                backends["reftable"] = rt
            except Exception as e:
                stats["reftable_unavailable"] = 1
    if case.get("namespaced"):
        from dulwich.refs import NamespacedRefsContainer
    trace = []
    leftover_cause = {}
    try:
        for step, op in enumerate(ops):
            kind = op[0]
            # resolve symbolic "cur"/"zero"/index values
            def val(x, name=None):
                if x is None:
                    return None
                if x == "zero":
                    return ZERO
                if x == "cur":
                    t = model.target(name) if kind in ("set",) else name
                    return model.refs.get(t) or ZERO
                return ids[x]
            pre = dict(model.refs)
            if kind in ("set", "setitem"):
                old = val(op[2], op[1]) if kind == "set" else None
                new = ids[op[3] if kind == "set" else op[2]]
                if old is not None and old.startswith(SYM):
                    old = ZERO
                want = model.set_if_equals(op[1], old, new)
                call = (lambda r, o=op, old=old, new=new: r.set_if_equals(o[1], old, new)) if kind == "set" else (
                    lambda r, o=op, new=new: r.__setitem__(o[1], new))
                feats.add("set-through-symref" if model.target(op[1]) != op[1] else "set")
            elif kind == "add":
                new = ids[op[2]]
                want = model.add_if_new(op[1], new)
                call = lambda r, o=op, new=new: r.add_if_new(o[1], new)
                feats.add("add")
            elif kind in ("del", "delitem"):
                old = val(op[2], op[1]) if kind == "del" else None
                if old is not None and old.startswith(SYM):
                    old = None
                want = model.remove_if_equals(op[1], old)
                call = (lambda r, o=op, old=old: r.remove_if_equals(o[1], old)) if kind == "del" else (lambda r, o=op: r.__delitem__(o[1]))
                feats.add("del")
            elif kind == "symref":
                want = model.set_symbolic_ref(op[1], op[2])
                call = lambda r, o=op: r.set_symbolic_ref(o[1], o[2])
                feats.add("symref")
            elif kind == "pack":
                want = None
                call = lambda r, o=op: r.pack_refs(all=o[1])
                feats.add("pack")
            elif kind == "reopen":
                backends["files"] = DiskRefsContainer(gitdir)
                if other_handle is not None and rng.random() < 0.3:
                    other_handle = DiskRefsContainer(gitdir)
                trace.append(op)
                continue
            trace.append([kind] + [x.decode() if isinstance(x, bytes) else x for x in op[1:]])
            # mechanism tags for the files backend (used in signatures): an empty directory left at the target path
            # by an earlier failed conditional update, or a colliding ref that exists only in packed-refs
            tag = ""
            if kind not in ("pack",):
                tname = model_target_before if False else None
            tname = op[1] if kind in ("del", "delitem", "symref") else (Model_target(pre, op[1]) if kind != "pack" else None)
            if tname:
                pth = os.path.join(gitdir.encode(), tname)
                below = any(r.startswith(tname + b"/") for r in pre)
                above = [r for r in pre if tname.startswith(r + b"/")]
                if os.path.isdir(pth) and not below:
                    tag = "/leftover-empty-dir-after-" + leftover_cause.get(tname, "unknown")
                elif any(os.path.isdir(os.path.join(gitdir.encode(), tname[:i])) and tname[:i] not in pre and
                         not any(r.startswith(tname[:i] + b"/") for r in pre) for i in range(len(tname)) if tname[i:i + 1] == b"/" and i > 5):
                    tag = ""
                coll = [r for r in pre if r != tname and (r.startswith(tname + b"/") or tname.startswith(r + b"/"))]
                if coll and all(not os.path.lexists(os.path.join(gitdir.encode(), r)) for r in coll):
                    rel = "parent" if all(tname.startswith(r + b"/") for r in coll) else "child" if all(r.startswith(tname + b"/") for r in coll) else "both"
                    tag = "/colliding-packed-%s%s" % (rel, "/via-symref" if tname != op[1] else "")
            for bname, refs in backends.items():
                if kind == "pack" and bname != "files":
                    continue
                idle = None
                if bname == "files" and other_handle is not None:
                    # sticky choice: a handle stays idle (and unobserved, see below) for a few operations, so that what it cached about
                    # packed-refs is out of date when it acts again
                    if rng.random() < 0.3:
                        acting[0] = 1 - acting[0]
                    if acting[0]:
                        refs, idle = other_handle, refs
                    else:
                        idle = other_handle
                nviol = len(viol)
                try:
                    got = call(refs)
                    exc = None
                except Exception as e:
                    got, exc = None, classify_exc(e)
                stats["ops_" + bname] = stats.get("ops_" + bname, 0) + 1
                # ---- return value / exception vs model
                if want == "collide-noop":
                    pass  # deleting an absent name that exists as a directory: error or no-op, state must not change (checked below)
                elif want in ("refused", "loop"):
                    if bname == "files" and exc is None and got not in (False,):
                        viol.append({"sig": "C16/%s/%s/%s-not-refused" % (bname, kind, "df-collision" if want == "refused" else "symref-loop"),
                                     "step": step})
                    if bname != "files":
                        # other backends are outside the compared sub-language here
                        pass
                elif exc is not None:
                    viol.append({"sig": "C16/%s/%s/unexpected-%s" % (bname, kind, exc), "step": step})
                elif kind in ("set", "add", "del") and bool(got) != bool(want):
                    viol.append({"sig": "C16/%s/%s/returned-%s-model-%s" % (bname, kind, got, want), "step": step})
                # ---- state vs model
                if want == "refused" and (exc is not None or got is False):
                    model.refs = pre
                obs = observe(refs, ALL_NAMES)
                md = model.as_dict()
                if obs["dict"] != md and len(viol) == nviol:
                    # (a step whose return value already disagreed is reported by that; the state difference is its consequence)
                    diff = sorted(set(md) ^ set(obs["dict"])) if isinstance(obs["dict"], dict) else obs["dict"]
                    chg = [k for k in md if isinstance(obs["dict"], dict) and k in obs["dict"] and obs["dict"][k] != md[k]]
                    viol.append({"sig": "C16/%s/state/as_dict-differs-after-%s" % (bname, kind), "step": step,
                                 "only_one_side": [x.decode() for x in diff] if isinstance(diff, list) else diff,
                                 "value_differs": [x.decode() for x in chg]})
                if obs["symrefs"] != model.symrefs():
                    v = {"sig": "C16/%s/state/symrefs-differ-after-%s" % (bname, kind), "step": step,
                         "got": repr(obs["symrefs"])[:200], "want": repr(model.symrefs())[:200]}
                    if bname == "reftable" and obs["symrefs"] == "raise:KeyError":
                        soft.append(v)  # reported (known finding) without ending the sequence
                    else:
                        viol.append(v)
                if idle is not None and not viol[nviol:] and rng.random() < 0.2:
                    stats["idle_handle_observations"] = stats.get("idle_handle_observations", 0) + 1
                    obs2 = observe(idle, ALL_NAMES)
                    if obs2["dict"] != md:
                        d2 = sorted(set(md) ^ set(obs2["dict"])) if isinstance(obs2["dict"], dict) else obs2["dict"]
                        c2 = [k for k in md if isinstance(obs2["dict"], dict) and k in obs2["dict"] and obs2["dict"][k] != md[k]]
                        viol.append({"sig": "C16/files/state/other-long-lived-handle-sees-stale-refs-after-%s" % kind, "step": step,
                                     "only_one_side": [x.decode() for x in d2] if isinstance(d2, list) else d2, "value_differs": [x.decode() for x in c2]})
                if bname == "files" and tag:
                    for v in viol[nviol:]:
                        v["sig"] += tag
                if bname == "files":
                    # which operation left an empty directory behind (mechanism of the residue, used in later signatures)
                    outcome = "raised" if exc is not None else ("refused-or-failed" if got is False else "succeeded")
                    hollow = {}
                    for base_, dirs_, files_ in os.walk(os.path.join(gitdir.encode(), b"refs"), topdown=False):
                        # a directory is residue when nothing but (recursively) empty directories is below it
                        hollow[base_] = not files_ and all(hollow.get(os.path.join(base_, d_), False) for d_ in dirs_)
                        if hollow[base_]:
                            rel_ = os.path.relpath(base_, gitdir.encode())
                            if rel_ not in (b"refs/heads", b"refs/tags", b"refs/remotes", b"refs") and rel_ not in leftover_cause:
                                # a directory that became hollow because of residue already below it inherits that residue's cause
                                inherited = [leftover_cause[os.path.join(rel_, d_)] for d_ in dirs_ if os.path.join(rel_, d_) in leftover_cause]
                                leftover_cause[rel_] = inherited[0] if inherited else "%s-%s" % ({"set": "conditional-set", "del": "conditional-delete", "add": "add_if_new"}.get(kind, kind), outcome)
                    for rel_ in list(leftover_cause):
                        # a directory that disappeared or got content again is no residue any more; what is found there later has a new cause
                        if not hollow.get(os.path.join(gitdir.encode(), rel_)):
                            del leftover_cause[rel_]
                if viol:
                    break
            if viol:
                break
            # ---- git's view of the files backend
            if step % case.get("git_every", 4) == 0 or kind == "pack":
                stats["git_views"] = stats.get("git_views", 0) + 1
                r = core.git(["for-each-ref", "--format=%(refname) %(objectname) %(symref)"], cwd=d, check=False)
                gl = {}
                gs = {}
                for line in r.stdout.splitlines():
                    p = line.split(b" ")
                    gl[p[0]] = p[1]
                    if len(p) > 2 and p[2]:
                        gs[p[0]] = p[2]
                md = {k: v for k, v in model.as_dict().items() if k != b"HEAD"}
                if r.returncode != 0:
                    viol.append({"sig": "C16/git-view/for-each-ref-fails-after-%s" % kind, "step": step, "err": r.stderr.decode(errors="replace")[-200:]})
                elif gl != md:
                    viol.append({"sig": "C16/git-view/for-each-ref-differs-after-%s" % kind, "step": step,
                                 "git_only": [k.decode() for k in set(gl) - set(md)], "model_only": [k.decode() for k in set(md) - set(gl)],
                                 "value": [k.decode() for k in gl if k in md and gl[k] != md[k]]})
                ms = {k: model.target(k) for k, v in model.symrefs().items() if k != b"HEAD" and k in md}
                if r.returncode == 0 and gs != ms:
                    viol.append({"sig": "C16/git-view/symrefs-differ-after-%s" % kind, "step": step, "git": repr(gs)[:200], "model": repr(ms)[:200]})
                h = core.git(["symbolic-ref", "-q", "HEAD"], cwd=d, check=False)
                mh = model.refs.get(b"HEAD", b"")
                looped = False
                try:
                    model.follow(b"HEAD")
                except RecursionError:
                    looped = True       # HEAD leads into a symref loop / over-long chain: what `git symbolic-ref` prints there is unspecified
                    stats["git_head_symref_not_compared_loop"] = stats.get("git_head_symref_not_compared_loop", 0) + 1
                if mh.startswith(SYM) and not looped:
                    # git 2.39 `symbolic-ref` resolves symref chains to the final ref name
                    if h.stdout.strip() != model.target(b"HEAD"):
                        viol.append({"sig": "C16/git-view/HEAD-symref-differs-after-%s" % kind, "step": step})
                elif mh and h.returncode == 0:
                    viol.append({"sig": "C16/git-view/HEAD-detached-in-model-symbolic-in-git", "step": step})
                if viol:
                    break
    finally:
        shutil.rmtree(d, ignore_errors=True)
    viol += soft[:1]
    for v in viol:
        v["trace"] = trace
    return {"viol": viol, "stats": stats, "evaluations": 1, "nontrivial": ["seq:%s:%s" % ("plain" if plain else "full", "+".join(sorted(feats)))],
            "ops": trace}


def run_chain(case):
    """symref chains of every length 1..8 (files backend): wherever C git resolves the chain, dulwich must read the same value, list the
    name in as_dict/keys, and a write/add/delete through the head of the chain must land on the final target and leave every link a
    symref.  Chains C git refuses to resolve are only required not to be read as a value."""
    from dulwich.repo import Repo
    rng = random.Random(case["seed"])
    viol, stats = [], {}
    d, ids = fresh_repo_for_chain()
    try:
        for L in range(1, 9):
            tgt = rng.choice([b"refs/heads/master", b"refs/heads/absent%d" % L, b"refs/tags/t%d" % L])
            via_head = rng.random() < 0.3
            names = [b"refs/heads/s%d_%d" % (L, i) for i in range(1, L + 1)]
            packed = rng.random() < 0.3
            if tgt.startswith(b"refs/tags/"):
                core.git(["update-ref", tgt.decode(), ids[1].decode()], cwd=d)
            r = Repo(d)
            try:
                for i, n in enumerate(names):
                    r.refs.set_symbolic_ref(n, names[i + 1] if i + 1 < len(names) else tgt)
                if via_head:
                    r.refs.set_symbolic_ref(b"HEAD", names[0])
                if packed:
                    r.refs.pack_refs(all=True)
            finally:
                r.close()
            head = b"HEAD" if via_head else names[0]
            g = core.git(["rev-parse", "--verify", "-q", head.decode()], cwd=d, check=False)
            gval = g.stdout.strip() if g.returncode == 0 else None
            exists = not tgt.startswith(b"refs/heads/absent")
            git_resolves = gval is not None or (not exists and core.git(["symbolic-ref", "-q", head.decode()], cwd=d, check=False).returncode == 0 and
                                                L + (1 if via_head else 0) <= 4)
            tag = "len=%d%s%s" % (L + (1 if via_head else 0), "/target-absent" if not exists else "", "/packed" if packed else "")
            stats["chain_cases"] = stats.get("chain_cases", 0) + 1
            r = Repo(d)
            try:
                try:
                    dv = r.refs[head]
                except KeyError:
                    dv = None
                except Exception as e:
                    dv = "raise:" + type(e).__name__
                if gval is not None:
                    stats["chains_git_resolves"] = stats.get("chains_git_resolves", 0) + 1
                    if dv != gval:
                        viol.append({"sig": "C16/files/chain/read-differs-from-git/%s" % tag, "dulwich": repr(dv), "git": repr(gval)})
                    elif head not in r.refs.as_dict() or head not in r.refs.keys():
                        viol.append({"sig": "C16/files/chain/resolvable-name-missing-from-listing/%s" % tag})
                    else:
                        # write through the chain
                        new = ids[2]
                        try:
                            r.refs[head] = new
                            ok = True
                        except Exception as e:
                            ok = "raise:" + type(e).__name__
                        tv = core.git(["rev-parse", "--verify", "-q", tgt.decode()], cwd=d, check=False).stdout.strip()
                        links = [core.git(["symbolic-ref", "-q", "--no-recurse" if False else "-q", n.decode()], cwd=d, check=False).returncode == 0 for n in names]
                        raw_links = all(open(os.path.join(d, ".git", n.decode()), "rb").read().startswith(b"ref: ") for n in names if os.path.exists(os.path.join(d, ".git", n.decode())))
                        if ok is not True or tv != new or not raw_links:
                            viol.append({"sig": "C16/files/chain/write-through-chain-%s/%s" % ("raised" if ok is not True else ("replaced-a-link" if not raw_links else "did-not-reach-target"), tag),
                                         "ok": ok, "target_value": repr(tv), "want": repr(new)})
                elif exists and isinstance(dv, bytes) and not git_resolves:
                    # git refuses (too deep); reading a value there is a disagreement with git's view
                    viol.append({"sig": "C16/files/chain/dulwich-resolves-chain-git-refuses/%s" % tag})
                elif not exists and L + (1 if via_head else 0) <= 4:
                    # unborn target through a resolvable chain: add_if_new must create the final target
                    stats["chains_unborn"] = stats.get("chains_unborn", 0) + 1
                    try:
                        res = r.refs.add_if_new(head, ids[3])
                    except Exception as e:
                        res = "raise:" + type(e).__name__
                    tv = core.git(["rev-parse", "--verify", "-q", tgt.decode()], cwd=d, check=False).stdout.strip()
                    if res is not True or tv != ids[3]:
                        viol.append({"sig": "C16/files/chain/add_if_new-through-chain-did-not-create-target/%s" % tag, "res": repr(res), "target": repr(tv)})
            finally:
                r.close()
            # reset HEAD for the next round
            core.git(["symbolic-ref", "HEAD", "refs/heads/master"], cwd=d)
            core.git(["update-ref", "refs/heads/master", ids[0].decode()], cwd=d)
    finally:
        shutil.rmtree(d, ignore_errors=True)
    seen, out = set(), []
    for v in viol:
        if v["sig"] not in seen:
            seen.add(v["sig"])
            out.append(v)
    return {"viol": out, "stats": stats, "nontrivial": ["chain:%d" % k for k in range(1, 9)], "evaluations": 8}


def fresh_repo_for_chain():
    if "scratch" not in _st:
        _st["scratch"] = core.Scratch("c16-")
    d = _st["scratch"].sub("ch%d" % random.getrandbits(40))
    core.git(["init", "-q", d])
    ids = []
    for i in range(4):
        with open(os.path.join(d, "f"), "w") as f:
            f.write(str(i))
        core.git(["add", "f"], cwd=d)
        core.git(["commit", "-q", "-m", "c%d" % i], cwd=d)
        ids.append(core.git(["rev-parse", "HEAD"], cwd=d).stdout.strip())
    core.git(["update-ref", "refs/heads/master", ids[0].decode()], cwd=d)
    return d, ids


def worker_exit():
    if "scratch" in _st:
        _st["scratch"].cleanup()


def run_case(case):
    return {"names": run_names, "seq": run_seq, "chain": run_chain}[case["kind"]](case)


def main(ctx):
    cases = []
    # exhaustive names: all strings of length <= L over the 20-symbol alphabet, sharded by 2-symbol prefix
    L = 5 if ctx.thorough else 4
    for a in NAME_ALPHA:
        for b in NAME_ALPHA:
            cases.append({"kind": "names", "prefixes": [(a + b).hex()], "L": L})
    cases.append({"kind": "names", "prefixes": [a.hex() for a in NAME_ALPHA], "L": 1})
    for i in range(ctx.budget(20, 200)):
        cases.append({"kind": "names", "seed": "%d/n/%d" % (ctx.seed, i), "n": 2000})
    for i in range(ctx.budget(4, 40)):
        cases.append({"kind": "names", "seed": "%d/nc/%d" % (ctx.seed, i), "n": 400, "confirm_all": True})
    for i in range(ctx.budget(500, 6000)):
        cases.append({"kind": "seq", "seed": "%d/s/%d" % (ctx.seed, i), "n": 25, "two_handles": i % 2 == 1})
    for i in range(ctx.budget(250, 3000)):
        cases.append({"kind": "seq", "seed": "%d/df/%d" % (ctx.seed, i), "n": 25, "universe": "df", "two_handles": i % 4 == 3})
    for i in range(ctx.budget(200, 2500)):
        cases.append({"kind": "seq", "seed": "%d/p/%d" % (ctx.seed, i), "n": 25, "plain": True if i % 2 else "symrefs-created-not-written-through", "reftable": True})
    for i in range(ctx.budget(40, 400)):
        cases.append({"kind": "chain", "seed": "%d/c/%d" % (ctx.seed, i)})
    ctx.rule = ("names: ALL byte strings of length 2..%d over the 20-symbol alphabet %s through check_ref_format vs a transcription of "
                "git's check_refname_format (confirmed with the real binary on every disagreement and on a random sample); sequences: "
                "25 ops over 10 names incl. D/F pair, a ref directly below refs/, symref chains, HEAD, loose/packed, pack_refs and re-open, model + git view; chains: symref "
                "chains of every length 1..8 (optionally entered through HEAD, packed, to present/absent/tag targets) read, listed and written "
                "through, against what C git resolves. "
                "non-trivial = distinct (name feature, verdict) / distinct operation-kind set." % (L, [a.decode('latin1') for a in NAME_ALPHA]))
    ctx.explanation = "exhaustive sub-space: all %d^2..%d names; sequences are random" % (len(NAME_ALPHA), L)
    ctx.assumptions = ["sequential map model of the RefsContainer contract (None old value = unconditional, ZERO id = absent)",
                       "Dict/reftable are compared only on sequences without symref writes and colliding names; reftable vs git is not compared (git 2.39 has no reftable)"]

    def on_result(case, out):
        if out["status"] != "ok":
            if out["status"] == "timeout":
                ctx.inconc("timeout " + case["kind"])
            else:
                ctx.violation("C16/%s/harness-%s/%s" % (case["kind"], out["status"], out.get("exc")), case, out)
            return
        res = out["result"]
        ctx.merge(res)
        for v in res.get("viol", []):
            c = dict(case)
            if case["kind"] == "seq":
                c["ops"] = None
            ctx.violation(v["sig"], case, v)
        ctx.sample(dict(case, ops=res.get("ops")) if case["kind"] == "seq" else case, case["kind"] + ("-plain" if case.get("plain") else ""))

    pool.pmap("vt.checks.c16", cases, timeout=600, on_result=on_result)
    if not ctx.stats["git_views"] or not ctx.stats["names_confirmed_with_git_binary"]:
        return "git was never consulted"
    return None
