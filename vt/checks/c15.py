"""C15 — Rust extensions and pure-Python fallbacks are observationally equivalent.

Differential monitor: every twin pair is called on the same generated input inside crash-isolated
workers (panics, aborts and allocation failures are observed outcomes).  Equivalence = same outcome
class (value / failure) and equal values; exception types need not match; a BaseException, abort,
MemoryError or hang on either side is a violation in itself.  Repository level: a battery run once
with the freshly built extensions and once with them blocked must produce identical results.
"""
import hashlib
import json
import os
import random
import stat

from vt import core, pool
from vt.checks import c03

LEVEL = "exploration"
_st = {}


def worker_init():
    c03.worker_init()
    import dulwich.diff_tree as D
    import dulwich.objects as O
    _st["O"], _st["D"] = O, D
    try:
        import dulwich._diff_tree as RD
        import dulwich._objects as RO
        import dulwich._pack as RP
        _st["RO"], _st["RD"], _st["RP"] = RO, RD, RP
    except ImportError:
        _st["RO"] = _st["RD"] = _st["RP"] = None
    # pure python bisect_find_sha from the re-executed module
    import sys
    _st["py_bisect"] = sys.modules["dulwich_pack_pure"].bisect_find_sha


def outcome(fn, *a, drain=False, **kw):
    try:
        r = fn(*a, **kw)
        if drain:
            r = list(r)
        return ("ok", r)
    except MemoryError:
        return ("resource", "MemoryError")
    except RecursionError:
        return ("resource", "RecursionError")
    except Exception as e:
        return ("fail", type(e).__name__)
    except BaseException as e:
        return ("base", type(e).__name__ + ":" + str(e)[:80])


def compare(name, py, rs, viol, inp, feature, norm=lambda x: x):
    for side, o in (("python", py), ("rust", rs)):
        if o[0] in ("base", "resource"):
            viol.append({"sig": "C15/%s/%s-side-%s/%s" % (name, side, o[0] if o[0] == "resource" else "panic-or-base-exception", feature),
                         "input": inp, "outcome": repr(o)[:200]})
            return
    if py[0] != rs[0]:
        viol.append({"sig": "C15/%s/%s/%s" % (name, "python-fails-rust-returns" if py[0] == "fail" else "rust-fails-python-returns", feature),
                     "input": inp, "python": repr(py)[:200], "rust": repr(rs)[:200]})
    elif py[0] == "ok" and norm(py[1]) != norm(rs[1]):
        viol.append({"sig": "C15/%s/values-differ/%s" % (name, feature), "input": inp, "python": repr(py[1])[:300], "rust": repr(rs[1])[:300]})


# ------------------------------------------------------------------------------ parse_tree
MODE_TEXTS = [b"100644", b"100755", b"40000", b"120000", b"160000", b"040000", b"0100644", b"0", b"00", b"", b"+100644", b"-100644",
              b"+0", b"-0", b"10_0644", b"1_0", b"_100644", b"100644_", b" 100644", b"100644 ", b"\t100644", b"100644\t", b"\n100644",
              b"100644\n", b"0o100644", b"0O100644", b"0x1f", b"0b11", b"100648", b"100649", b"10064a", b"\xd9\xa1\xd9\xa2", b"\xff",
              b"37777777777", b"40000000000", b"77777777777", b"1000000000000000000000", b"7" * 30, b"1e3", b"1.0", b"1 0", b"\x00",
              b"100644\x00", b"\x0b100644", b"\x0c100644", b"100644\r", b"+", b"-", b"++1", b"+-1", b"0_0"]


def mode_feature(m):
    if m[:1] in (b"+", b"-"):
        return "mode-sign"
    if b"_" in m:
        return "mode-underscore"
    if m[:2].lower() in (b"0o", b"0x", b"0b"):
        return "mode-prefix"
    if m != m.strip(b" \t\n\r\x0b\x0c") or b" " in m:
        return "mode-whitespace"
    if m.isdigit() and all(c in b"01234567" for c in m):
        if len(m) > 11 or int(m, 8) > 0xFFFFFFFF:
            return "mode>32bit"
        if m.startswith(b"0"):
            return "mode-leading-zero"
        return "mode-plain"
    if m == b"":
        return "mode-empty"
    return "mode-other"


def gen_tree_payload(rng):
    n = rng.choice([0, 1, 1, 2, 3, 8])
    sha_len = rng.choice([20, 20, 32])
    parts, feats = [], set()
    for _ in range(n):
        m = rng.choice(MODE_TEXTS) if rng.random() < 0.6 else rng.choice([b"100644", b"40000", b"100755"])
        feats.add(mode_feature(m))
        name = rng.choice([b"a", b"", b"a b", b"\xff\xfe", b"a/b", b"x" * 300, b".git", b"a\nb"])
        sha = bytes(rng.randrange(256) for _ in range(sha_len))
        e = m + b" " + name + b"\0" + sha
        r = rng.random()
        if r < 0.06:
            e = m + name + b"\0" + sha
            feats.add("missing-space")
        elif r < 0.12:
            e = m + b" " + name + sha
            feats.add("missing-nul")
        elif r < 0.2:
            e = e[:rng.randrange(len(e))]
            feats.add("truncated")
        parts.append(e)
    text = b"".join(parts)
    if rng.random() < 0.1:
        text += bytes(rng.randrange(256) for _ in range(rng.randint(1, 25)))
        feats.add("trailing")
    feats.discard("mode-plain")
    return text, sha_len, "+".join(sorted(feats)[:2]) or "valid"


def run_parse_tree(case):
    rng = random.Random(case["seed"])
    viol, nt = [], set()
    py, rs = _st["O"]._parse_tree_py, _st["RO"].parse_tree
    n = 0
    items = []
    for m in (MODE_TEXTS if case.get("modes") else []):
        for tail in (b" a\0" + b"\x11" * 20, b" a\0" + b"\x11" * 20 + b"100644 b\0" + b"\x22" * 20):
            items.append((m + tail, 20, mode_feature(m)))
    for _ in range(case.get("n", 300)):
        items.append(gen_tree_payload(rng))
    for text, sha_len, feat in items:
        for strict in (False, True):
            for sl in (sha_len, rng.choice([20, 32])):
                n += 1
                a = outcome(py, text, sl, strict=strict, drain=True)
                b = outcome(rs, text, sl, strict=strict, drain=True)
                compare("parse_tree", a, b, viol, {"text": text.hex()[:300], "sha_len": sl, "strict": strict}, feat,
                        norm=lambda v: [tuple(x) for x in v])
        nt.add("pt:" + feat)
    if case.get("big"):
        big = b"".join(b"100644 f%d\0" % i + hashlib.sha1(b"%d" % i).digest() for i in range(100000))
        compare("parse_tree", outcome(py, big, 20, strict=True, drain=True), outcome(rs, big, 20, strict=True, drain=True), viol,
                {"text": "100000 entries"}, "big", norm=lambda v: [tuple(x) for x in v])
        n += 1
    return {"viol": dedupe(viol), "stats": {"twin_calls_parse_tree": n}, "nontrivial": sorted(nt), "evaluations": n}


def dedupe(viol):
    seen, out = set(), []
    for v in viol:
        if v["sig"] not in seen:
            seen.add(v["sig"])
            out.append(v)
    return out


# ------------------------------------------------------------------------------ sorted_tree_items
NAMES = [b"a", b"a.", b"a-", b"a0", b"a/", b"a b", b"ab", b"a\xff", b"a\x80", b"a\x01", b"a\x2e", b"a\x2f", b"a\x30", b"b", b"", b"A",
         b"\xc3\xa9", b"caf", b"caf\xc3\xa9", b"a.b", b"a/b"]
MODES = [0o100644, 0o100755, 0o40000, 0o120000, 0o160000, 0o040755, 0, 0o170000, 0o140000, 0o60000, 0o20000, 2 ** 32 - 1]


def run_sorted(case):
    rng = random.Random(case["seed"])
    viol, nt = [], set()
    py, rs = _st["O"]._sorted_tree_items_py, _st["RO"].sorted_tree_items
    n = 0
    for _ in range(case.get("n", 300)):
        k = rng.randint(0, 7)
        d = {}
        feat = "plain"
        # names containing '/' (or NUL) cannot occur in a tree; the comparators are only defined on real entry names
        for name in rng.sample([x for x in NAMES if b"/" not in x], min(k, 15)):
            mode = rng.choice(MODES)
            sha = b"%040x" % rng.getrandbits(160)
            d[name] = (mode, sha)
        # argument *types* outside the documented ones (non-int modes, non-bytes names/ids) are not inputs the statement
        # quantifies over; they are left out (the Rust side panics on a non-bytes name: noted in DESIGN.md, not judged)
        for order in (False, True):
            n += 1
            a = outcome(py, d, order, drain=True)
            b = outcome(rs, d, order, drain=True)
            compare("sorted_tree_items", a, b, viol, {"entries": repr(d)[:400], "name_order": order}, feat,
                    norm=lambda v: [tuple(x) for x in v])
        hi = any(nm[-1:] >= b"\x80" for nm in d if isinstance(nm, bytes))
        nt.add("sti:%s:%d:%s" % (feat, len(d), hi))
    return {"viol": dedupe(viol), "stats": {"twin_calls_sorted_tree_items": n}, "nontrivial": sorted(nt), "evaluations": n}


# ------------------------------------------------------------------------------ apply_delta / create_delta
def run_delta(case):
    viol, nt = [], set()
    py, rs = c03._state["py_apply"], c03._state["rs_apply"]
    n = 0
    for bname, dhex in case["items"]:
        base = c03.base_bytes(bname)
        delta = bytes.fromhex(dhex)
        n += 1
        a = c03.call_budgeted(py, base, delta, 256 << 20)
        b = c03.call_budgeted(rs, base, delta, 256 << 20)

        def cls(o):
            if o[0] == "ok":
                return ("ok", o[1])
            if o[0] == "delta-error" or o[0].startswith("exc:"):
                return ("fail", o[0])
            if o[0] in ("MemoryError", "RecursionError"):
                return ("resource", o[0])
            return ("base", o[0])
        compare("apply_delta", cls(a), cls(b), viol, {"base": bname, "delta": dhex[:200]}, c03.hdr_class(delta))
        nt.add("ad:%s:%s" % (bname[:3], c03.hdr_class(delta)))
    return {"viol": dedupe(viol), "stats": {"twin_calls_apply_delta": n}, "nontrivial": sorted(nt), "evaluations": n}


def run_create(case):
    rng = random.Random(case["seed"])
    viol, nt = [], set()
    pyc, rsc = c03._state["py_create"], c03._state["rs_create"]
    from vt.ref import packfmt
    n = 0
    for sh in case["shapes"]:
        base, target = c03.gen_pair(rng, sh)
        for nm, enc in (("python", pyc), ("rust", rsc)):
            n += 1
            o = outcome(lambda: b"".join(enc(base, target)) if nm == "python" else enc(base, target))
            if o[0] != "ok":
                viol.append({"sig": "C15/create_delta/%s-raises/%s" % (nm, sh), "outcome": repr(o)[:200]})
                continue
            d = o[1] if isinstance(o[1], bytes) else b"".join(o[1])
            try:
                ok = packfmt.strict_apply_delta(base, d) == target
            except packfmt.DeltaError:
                ok = False
            if not ok:
                viol.append({"sig": "C15/create_delta/%s-output-does-not-decode-to-target/%s" % (nm, sh), "base_len": len(base), "target_len": len(target)})
        nt.add("cd:%s:%d" % (sh, len(base) // 1000))
    return {"viol": dedupe(viol), "stats": {"twin_calls_create_delta": n}, "nontrivial": sorted(nt), "evaluations": n}


# ------------------------------------------------------------------------------ bisect_find_sha
def run_bisect(case):
    rng = random.Random(case["seed"])
    viol, nt = [], set()
    py, rs = _st["py_bisect"], _st["RP"].bisect_find_sha
    n = 0
    for _ in range(case.get("n", 200)):
        L = rng.choice([20, 20, 32])
        k = rng.choice([0, 1, 2, 3, 10, 100])
        table = sorted(set(bytes(rng.randrange(256) for _ in range(L)) for _ in range(k)))
        base = rng.choice([0, 0, 0, 5, 2 ** 31 - 200, 2 ** 31 - 1, 2 ** 31, 2 ** 32 - 100, 2 ** 32, 2 ** 40])
        feat = "small-index" if base < 2 ** 30 else "index>=2^30" if base < 2 ** 31 else "index>=2^31"

        def unpack(i, table=table, base=base):
            return table[i - base]
        probes = table[:3] + [bytes(rng.randrange(256) for _ in range(L)), b"\0" * L, b"\xff" * L]
        for p in probes:
            for (s, e) in ((base, base + len(table) - 1), (base, base + max(0, len(table) - 2)), (base + 1, base + len(table) - 1),
                           (base + len(table), base + len(table) - 1)):
                if e - s >= len(table) or s < base:
                    continue
                n += 1
                a = outcome(py, s, e, p, unpack)
                b = outcome(rs, s, e, p, unpack)
                compare("bisect_find_sha", a, b, viol, {"start": s, "end": e, "n": len(table), "L": L}, feat + ("/start>end" if s > e else ""))
        # callbacks returning wrong types
        if rng.random() < 0.1 and table:
            n += 1
            compare("bisect_find_sha", outcome(py, 0, 0, table[0], lambda i: "str"), outcome(rs, 0, 0, table[0], lambda i: "str"), viol,
                    {"callback": "returns str"}, "callback-wrong-type")
        nt.add("bs:%s:%d:%d" % (feat, L, min(len(table), 11)))
    return {"viol": dedupe(viol), "stats": {"twin_calls_bisect": n}, "nontrivial": sorted(nt), "evaluations": n}


# ------------------------------------------------------------------------------ diff_tree twins
def run_difftree(case):
    rng = random.Random(case["seed"])
    viol, nt = [], set()
    O, D, RD = _st["O"], _st["D"], _st["RD"]
    n = 0
    for _ in range(case.get("n", 150)):
        trees = []
        for _t in range(2):
            t = O.Tree()
            for name in rng.sample([x for x in NAMES if x and b"/" not in x and b"\0" not in x], rng.randint(0, 6)):
                t.add(name, rng.choice(MODES[:6]), b"%040x" % rng.getrandbits(160))
            trees.append(t)
        path = rng.choice([b"", b"d", b"d/e"])
        n += 1
        a = outcome(D._merge_entries_py, path, trees[0], trees[1])
        b = outcome(RD._merge_entries, path, trees[0], trees[1])
        compare("_merge_entries", a, b, viol, {"t1": repr(trees[0].items())[:300], "t2": repr(trees[1].items())[:300], "path": path.hex()},
                "trees", norm=lambda v: [(tuple(x) if x is not None else None, tuple(y) if y is not None else None) for x, y in v])
        for e in [None, O.TreeEntry(b"a", None, None), O.TreeEntry(b"a", rng.choice(MODES[:9]), b"1" * 40)]:
            n += 1
            compare("_is_tree", outcome(D._is_tree_py, e), outcome(RD._is_tree, e), viol, {"entry": repr(e)}, "entry")
        blob = O.Blob()
        kind = rng.choice(["lines", "long", "nul", "nolf", "chunks", "empty", "b64"])
        if kind == "lines":
            data = b"".join(b"line %d\n" % rng.randrange(50) for _ in range(rng.randint(0, 40)))
        elif kind == "long":
            data = bytes(rng.choice(b"ab\n") for _ in range(rng.randint(0, 400)))
        elif kind == "nul":
            data = bytes(rng.choice(b"\0a\n\xff") for _ in range(rng.randint(0, 200)))
        elif kind == "nolf":
            data = b"x" * rng.choice([1, 63, 64, 65, 127, 128, 129])
        elif kind == "b64":
            data = (b"y" * 64 + b"\n") * 3 + b"z" * 64
        elif kind == "empty":
            data = b""
        else:
            data = None
            blob.chunked = [b"ab", b"", b"c\nd" * 30, b"\n"]
        if data is not None:
            blob.data = data
        n += 1
        compare("_count_blocks", outcome(D._count_blocks_py, blob), outcome(RD._count_blocks, blob), viol, {"blob": kind}, kind,
                norm=lambda v: dict(v))
        nt.add("dt:%s:%d:%d" % (kind, len(trees[0]), len(trees[1])))
    return {"viol": dedupe(viol), "stats": {"twin_calls_difftree": n}, "nontrivial": sorted(nt), "evaluations": n}


# ------------------------------------------------------------------------------ repository level
def run_repo_battery(case):
    """Deterministic battery; the parent runs it with extensions on and off and compares the digests."""
    import io
    from dulwich.diff_tree import RenameDetector, tree_changes
    from dulwich.index import commit_tree
    from dulwich.object_store import MemoryObjectStore
    from dulwich.objects import Blob, Tree
    from dulwich.pack import PackData, write_pack_objects, Pack
    rng = random.Random(case["seed"])
    store = MemoryObjectStore()
    res = {}
    blobs = []
    for i in range(12):
        b = Blob.from_string(b"".join(b"line %d\n" % rng.randrange(30) for _ in range(rng.randint(0, 60))))
        store.add_object(b)
        blobs.append(b)
    listings = []
    for _ in range(4):
        entries = []
        used = set()
        for _e in range(rng.randint(1, 8)):
            p = rng.choice([b"a", b"a.b", b"a-", b"a0", b"d/x", b"d/y", b"d.e", b"d/z/q", b"caf\xc3\xa9", b"caf", b"b", b"a\xff"])
            if p in used or any(q.startswith(p + b"/") or p.startswith(q + b"/") for q in used):
                continue
            used.add(p)
            entries.append((p, rng.choice(blobs).id, rng.choice([0o100644, 0o100755, 0o120000])))
        listings.append(commit_tree(store, entries))
    res["tree_ids"] = [t.decode() for t in listings]
    res["tree_bytes"] = [hashlib.sha1(store[t].as_raw_string()).hexdigest() for t in listings]
    res["parsed"] = [[(e.path.decode("latin1"), e.mode, e.sha.decode()) for e in store[t].iteritems()] for t in listings]
    ch = []
    for a in listings:
        for b in listings:
            ch.append([(c.type, repr(c.old), repr(c.new)) for c in tree_changes(store, a, b)])
            ch.append([(c.type, repr(c.old), repr(c.new)) for c in tree_changes(store, a, b, rename_detector=RenameDetector(store))])
    res["changes"] = hashlib.sha1(json.dumps(ch).encode()).hexdigest()
    f = io.BytesIO()
    objs = [(store[t], None) for t in listings] + [(b, None) for b in blobs]
    from dulwich.object_format import DEFAULT_OBJECT_FORMAT
    write_pack_objects(f.write, objs, DEFAULT_OBJECT_FORMAT, deltify=True)
    from vt.ref import packfmt
    pi = packfmt.parse_pack(f.getvalue())
    got, _ = packfmt.resolve(pi)
    res["pack_objects"] = sorted(k.hex() for k in got)
    res["pack_ok"] = sorted(k.hex() for k in got) == sorted(set(o.id.decode() for o, _ in objs))
    return {"viol": [], "stats": {"repo_batteries": 1}, "evaluations": 1, "digest": res, "nontrivial": ["repo:" + str(case["seed"])]}


def run_case(case):
    return {"parse_tree": run_parse_tree, "sorted": run_sorted, "delta": run_delta, "create": run_create, "bisect": run_bisect,
            "difftree": run_difftree, "repo": run_repo_battery}[case["kind"]](case)


def main(ctx):
    if not getattr(ctx, "ext_table", None):
        return "rust extensions could not be built from the working tree"
    rng = ctx.sub_rng("gen")
    cases = [{"kind": "parse_tree", "seed": "%d/pt/x" % ctx.seed, "modes": True, "n": 100, "big": True}]
    for i in range(ctx.budget(300, 3000)):
        cases.append({"kind": "parse_tree", "seed": "%d/pt/%d" % (ctx.seed, i), "n": 300})
    for i in range(ctx.budget(300, 3000)):
        cases.append({"kind": "sorted", "seed": "%d/st/%d" % (ctx.seed, i), "n": 300})
    st = c03.structured_deltas(ctx.sub_rng("deltas"), ctx.budget(6000, 80000))
    import itertools
    allstr = [bytes(t).hex() for n in range(0, 5) for t in itertools.product(c03.ALPHA, repeat=n)]
    items = [(b, d.hex()) for b, d in st] + [(bn, d) for bn in ("5", "big") for d in allstr]
    for i in range(0, len(items), 1000):
        cases.append({"kind": "delta", "items": items[i:i + 1000]})
    for i in range(ctx.budget(20, 300)):
        cases.append({"kind": "create", "seed": "%d/cd/%d" % (ctx.seed, i), "shapes": c03.SHAPES})
    for i in range(ctx.budget(200, 2000)):
        cases.append({"kind": "bisect", "seed": "%d/bs/%d" % (ctx.seed, i), "n": 200})
    for i in range(ctx.budget(200, 2000)):
        cases.append({"kind": "difftree", "seed": "%d/dt/%d" % (ctx.seed, i), "n": 150})
    repo_cases = [{"kind": "repo", "seed": "%d/repo/%d" % (ctx.seed, i)} for i in range(ctx.budget(30, 300))]
    ctx.rule = ("twin calls on generated inputs: tree payloads (valid + %d odd mode spellings, missing terminators, truncations, both id "
                "lengths, strict on/off), entry dicts with prefix-related names/odd types, the C03 hostile delta corpus, sorted id tables "
                "with index offsets up to 2^40, tree pairs, blobs; repository battery with extensions on vs blocked. non-trivial = "
                "distinct input feature class per twin." % len(MODE_TEXTS))
    ctx.assumptions = ["exception classes need not match between twins (failure in both suffices)",
                       "the Python twins are the functions dulwich keeps (_parse_tree_py, _merge_entries_py, ...) or pack.py re-executed with the extension blocked"]
    digests = {True: {}, False: {}}

    def mk(on):
        def on_result(case, out):
            if out["status"] != "ok":
                if out["status"] == "timeout":
                    ctx.violation("C15/%s/hang" % case["kind"], case, out)
                elif out["status"] == "died":
                    ctx.violation("C15/%s/process-died/%s" % (case["kind"], "alloc-failure" if "memory allocation" in out.get("stderr", "") else
                                                                   "signal-%s" % out.get("signal")), case, {"stderr": out.get("stderr", "")[-300:]})
                else:
                    ctx.violation("C15/%s/harness-error/%s" % (case["kind"], out.get("exc")), case, out)
                return
            res = out["result"]
            ctx.merge(res)
            for v in res.get("viol", []):
                ctx.violation(v["sig"], case, v)
            if case["kind"] == "repo":
                digests[on][case["seed"]] = res["digest"]
            ctx.sample({k: (v if k != "items" else v[:4]) for k, v in case.items()}, case["kind"])
        return on_result

    pool.pmap("vt.checks.c15", cases + repo_cases, timeout=300, on_result=mk(True), ext_table=ctx.ext_table)
    # same battery with the extensions blocked (pure python)
    pool.pmap("vt.checks.c15_pure", repo_cases, timeout=300, on_result=mk(False), block_ext=True)
    for seed, d in digests[True].items():
        e = digests[False].get(seed)
        if e is None:
            ctx.inconc("repo battery missing without extensions")
            continue
        ctx.count("repo_batteries_compared")
        for k in d:
            if d[k] != e[k]:
                ctx.violation("C15/repository-level/%s-differs-with-extensions" % k, {"kind": "repo", "seed": seed},
                              {"with_ext": repr(d[k])[:300], "without": repr(e[k])[:300]})
        if not d.get("pack_ok") or not e.get("pack_ok"):
            ctx.violation("C15/repository-level/deltified-pack-wrong-contents", {"kind": "repo", "seed": seed}, None)
    for k in ("twin_calls_parse_tree", "twin_calls_sorted_tree_items", "twin_calls_apply_delta", "twin_calls_bisect",
              "twin_calls_difftree", "twin_calls_create_delta", "repo_batteries_compared"):
        if not ctx.stats[k]:
            return "twin family never exercised: " + k
    return None
