"""C07 — lock files: mutual exclusion and all-or-nothing replacement.

(1) Schedule exploration: 2-3 actors each doing GitFile(p,'wb'); write*; close()|abort() on the same path are
    interleaved at system-call granularity (vt.mon.fsint + vt.mon.sched, exhaustive DFS for 2 actors,
    preemption-bounded for 3).  A monitor updated inside scheduler steps keeps the creator of the lock file and
    asserts: no O_EXCL success while another actor's hold interval is open (mutual exclusion); nobody
    renames/unlinks a lock created by someone else (foreign-lock disturbance); after *every* step the
    protected file is a complete old version or a complete payload; a successful close() put exactly that
    actor's payload in place.
(2) Fault enumeration: every routine of the registry that writes through the lock protocol runs once to
    enumerate its file-system calls, then once per (call x {ENOSPC, EIO, EPERM, KeyboardInterrupt}).  After the
    exception was handled, dropped and collected: every file is complete-old or complete-new, no *.lock is left,
    and the same routine then succeeds.
"""
import errno
import gc
import os
import random
import shutil

from vt import core, pool
from vt.mon import fsint, sched

LEVEL = "fault_enumeration"
_st = {}


# ------------------------------------------------------------------------------ (1) schedules
class LockMonitor:
    def __init__(self, root, target, initial, payloads):
        self.root = root
        self.target = target            # relative path of protected file
        self.lock = target + ".lock"
        self.legal = {initial} | set(payloads.values())
        self.payloads = payloads
        self.creator = None
        self.viol = []
        self.replaced_by = []           # order of successful replaces
        self.holds = 0
        self.max_concurrent_waiters = 0
        self.events = 0

    def on_step(self, actor, ev, run):
        self.events += 1
        if ev is not None and "err" not in ev and "injected" not in ev:
            op, p = ev["op"], ev["path"]
            if op == "creat" and p == self.lock and ev.get("excl"):
                if self.creator is not None and self.creator != actor:
                    self.viol.append({"sig": "C07/sched/mutual-exclusion-broken", "holder": self.creator, "intruder": actor})
                self.creator = actor
                self.holds += 1
            elif op == "creat" and p == self.lock and not ev.get("excl"):
                if self.creator is not None and self.creator != actor:
                    self.viol.append({"sig": "C07/sched/lock-opened-without-O_EXCL-while-held", "holder": self.creator, "intruder": actor})
                self.creator = actor
            elif op in ("replace", "rename") and p == self.lock:
                if self.creator != actor:
                    self.viol.append({"sig": "C07/sched/foreign-lock-renamed", "creator": self.creator, "by": actor})
                self.creator = None
                self.replaced_by.append(actor)
                content = fsint.read_file(os.path.join(self.root, self.target))
                if content != self.payloads.get(actor):
                    self.viol.append({"sig": "C07/sched/content-after-rename-is-not-the-writers-payload", "by": actor,
                                      "content": repr(content)[:60]})
            elif op == "remove" and p == self.lock:
                if self.creator != actor:
                    self.viol.append({"sig": "C07/sched/foreign-lock-removed" + ("/after-own-replace" if actor in self.replaced_by else ""),
                                      "creator": self.creator, "by": actor})
                self.creator = None
        content = fsint.read_file(os.path.join(self.root, self.target))
        if content not in self.legal:
            self.viol.append({"sig": "C07/sched/protected-file-torn-or-foreign-content", "content": repr(content)[:80], "after": ev and ev["op"]})


def run_sched(case):
    from dulwich.file import FileLocked, GitFile
    rng = random.Random(case["seed"])
    if "scratch" not in _st:
        _st["scratch"] = core.Scratch("c07-")
    base = _st["scratch"].sub("s%d" % rng.randrange(10 ** 9))
    shape = case["shape"]           # list of (payload_len, n_writes, "close"|"abort", bufsize)
    initial = b"INITIAL\n" if case.get("initial", True) else None
    payloads = {}
    for i, (plen, nw, fin, bs) in enumerate(shape):
        payloads["A%d" % i] = (b"%d" % i) * plen
    viol, stats = [], {"schedules": 0, "steps": 0, "inconclusive_runs": 0}
    outcomes = set()
    interleavings = set()
    runno = [0]

    def make_run(prefix):
        runno[0] += 1
        root = os.path.join(base, "r%d" % runno[0])
        os.makedirs(root)
        target = os.path.join(root, "file")
        if initial is not None:
            with open(target, "wb") as f:
                f.write(initial)
        layer = fsint.Layer(root)
        results = {}

        def mk(i, plen, nw, fin, bs):
            name = "A%d" % i

            def body():
                try:
                    f = GitFile(target, "wb") if bs is None else GitFile(target, "wb", bufsize=bs)
                except FileLocked:
                    results[name] = "locked"
                    return
                data = payloads[name]
                step = max(1, len(data) // nw)
                for k in range(0, len(data), step):
                    f.write(data[k:k + step])
                if fin == "close":
                    f.close()
                    results[name] = "closed"
                else:
                    f.abort()
                    results[name] = "aborted"
            return body
        actors = {"A%d" % i: mk(i, *sh) for i, sh in enumerate(shape)}
        mon = LockMonitor(root, "file", initial, {k: v for k, v in payloads.items()})
        fsint.install(layer)
        try:
            run = sched.Run(layer, actors, prefix=prefix, on_step=mon.on_step)
            run.execute()
        finally:
            fsint.uninstall()
        run.mon = mon
        run.results = results
        run.root = root
        run.final = fsint.read_file(target)
        run.lock_left = os.path.exists(target + ".lock")
        return run

    sample = None
    for kind, prefix, run in sched.explore(make_run, case["max_runs"], case.get("bound"), rng):
        if kind == "end":
            stats["exploration"] = run
            break
        if kind == "inconclusive":
            stats["inconclusive_runs"] += 1
            continue
        stats["schedules"] += 1
        stats["steps"] += len(run.trace)
        mon = run.mon
        vs = list(mon.viol)
        # end-of-run oracle
        for name, st in run.actors.items():
            if st.exc is not None:
                vs.append({"sig": "C07/sched/actor-raised-%s" % type(st.exc).__name__, "actor": name, "msg": str(st.exc)[:100]})
        closed = [a for a, r in run.results.items() if r == "closed"]
        if closed:
            last = mon.replaced_by[-1] if mon.replaced_by else None
            if run.final != payloads.get(last):
                vs.append({"sig": "C07/sched/final-content-is-not-last-committers-payload"})
            if sorted(mon.replaced_by) != sorted(closed):
                vs.append({"sig": "C07/sched/close-returned-without-rename-or-rename-without-close"})
        elif run.final != initial:
            vs.append({"sig": "C07/sched/content-changed-although-nobody-committed"})
        if run.lock_left:
            vs.append({"sig": "C07/sched/lock-file-left-after-all-actors-finished"})
        inter = tuple(run.choices())
        interleavings.add(inter)
        outcomes.add(tuple(sorted(run.results.items())))
        if sample is None and len(set(inter)) > 1:
            sample = {"schedule": list(inter), "results": run.results, "events": [(e["actor"], e["op"], e["path"]) for e in run.layer.log][:40]}
        for v in vs:
            v["schedule"] = list(inter)
            v["shape"] = shape
            viol.append(v)
        shutil.rmtree(run.root, ignore_errors=True)
        if len(viol) > 50:
            break
    shutil.rmtree(base, ignore_errors=True)
    seen, out = set(), []
    for v in viol:
        if v["sig"] not in seen:
            seen.add(v["sig"])
            out.append(v)
    stats["distinct_outcomes"] = len(outcomes)
    nt = ["sched:%s:%d" % (case["name"], len(interleavings))] + ["out:" + repr(o) for o in list(outcomes)[:20]]
    return {"viol": out, "stats": {k: v for k, v in stats.items() if isinstance(v, int)}, "exploration": stats.get("exploration"),
            "nontrivial": nt, "evaluations": stats["schedules"], "sample": sample, "n_interleavings": len(interleavings)}


# ------------------------------------------------------------------------------ (2) fault enumeration
def build_repo(d):
    """Small repository with loose+packed refs, an index, config, objects."""
    from dulwich.repo import Repo
    core.git(["init", "-q", d])
    with open(os.path.join(d, "f.txt"), "w") as f:
        f.write("one\n")
    core.git(["add", "f.txt"], cwd=d)
    core.git(["commit", "-q", "-m", "c1"], cwd=d)
    with open(os.path.join(d, "f.txt"), "w") as f:
        f.write("two\n")
    core.git(["commit", "-q", "-am", "c2"], cwd=d)
    core.git(["branch", "other", "HEAD~1"], cwd=d)
    core.git(["tag", "-a", "-m", "t", "v1", "HEAD~1"], cwd=d)
    core.git(["pack-refs", "--all"], cwd=d)
    core.git(["branch", "loose", "HEAD"], cwd=d)
    c1 = core.git(["rev-parse", "HEAD~1"], cwd=d).stdout.strip()
    c2 = core.git(["rev-parse", "HEAD"], cwd=d).stdout.strip()
    return c1, c2


def routines():
    """name -> callable(repo_path, ids) performing one write through the lock protocol."""
    from dulwich.config import ConfigFile
    from dulwich.index import Index
    from dulwich.objects import Blob
    from dulwich.refs import DiskRefsContainer, locked_ref
    from dulwich.repo import Repo

    def refs(p):
        if _st.get("shared_mode"):
            # through the repository, so that core.sharedRepository reaches the lock files (chmod before the rename)
            r = Repo(p)
            _st.setdefault("open_repos", []).append(r)
            return r.refs
        return DiskRefsContainer(os.path.join(p, ".git"))

    def r_index_write(p, ids):
        idx = Index(os.path.join(p, ".git", "index"))
        e = idx[b"f.txt"]
        idx[b"g.txt"] = e
        idx.write()

    def r_set_if_equals(p, ids):
        assert refs(p).set_if_equals(b"refs/heads/loose", ids[1], ids[0])

    def r_set_packed(p, ids):
        assert refs(p).set_if_equals(b"refs/heads/other", ids[0], ids[1])

    def r_add_if_new(p, ids):
        assert refs(p).add_if_new(b"refs/heads/new/deep", ids[0])

    def r_remove_loose(p, ids):
        assert refs(p).remove_if_equals(b"refs/heads/loose", ids[1])

    def r_remove_packed(p, ids):
        assert refs(p).remove_if_equals(b"refs/heads/other", ids[0])

    def r_symref(p, ids):
        refs(p).set_symbolic_ref(b"HEAD", b"refs/heads/other")

    def r_pack_refs(p, ids):
        refs(p).pack_refs(all=True)

    def r_add_packed(p, ids):
        refs(p).add_packed_refs({b"refs/heads/loose": ids[0], b"refs/heads/zz": ids[1]})

    def r_locked_ref(p, ids):
        with locked_ref(refs(p), b"refs/heads/loose") as lr:
            lr.ensure_equals(ids[1])
            lr.set(ids[0])

    def r_config(p, ids):
        c = ConfigFile.from_path(os.path.join(p, ".git", "config"))
        c.set((b"user",), b"name", b"x" * 3000)
        c.write_to_path()

    def r_add_object(p, ids):
        r = Repo(p)
        try:
            r.object_store.add_object(Blob.from_string(b"fault enumeration blob\n" * 50))
        finally:
            r.close()

    def r_shallow(p, ids):
        r = Repo(p)
        try:
            r.update_shallow([ids[0]], [])
        finally:
            r.close()

    def r_commit_graph(p, ids):
        r = Repo(p)
        try:
            r.object_store.write_commit_graph([ids[1]], reachable=True)
        finally:
            r.close()

    def r_named_file(p, ids):
        r = Repo(p)
        try:
            r._put_named_file("description", b"a description\n" * 20)
        finally:
            r.close()

    def r_gitfile_big(p, ids):
        from dulwich.file import GitFile
        with GitFile(os.path.join(p, ".git", "bigfile"), "wb") as f:
            for _ in range(40):
                f.write(b"z" * 1000)

    return {k[2:]: v for k, v in locals().items() if k.startswith("r_")}


FAULTS = {"ENOSPC": lambda: OSError(errno.ENOSPC, "No space left on device (injected)"),
          "EIO": lambda: OSError(errno.EIO, "Input/output error (injected)"),
          "EPERM": lambda: PermissionError(errno.EPERM, "Operation not permitted (injected)"),
          "KeyboardInterrupt": lambda: KeyboardInterrupt()}
FAULT_KINDS = ["ENOSPC", "EIO", "EPERM", "KeyboardInterrupt", "ENOSPC-persistent"]
# "write-buffered": a write() that only reaches the user-space buffer; failing it stands for the buffer overflowing at that very call
FAULT_OPS = {"write", "write-buffered", "flush", "fsync", "chmod", "rename", "replace", "creat", "open-w", "close-w", "remove", "truncate", "mkdir", "utime"}


def tree_state(root):
    out = {}
    with fsint.Bypass():
        for dp, dn, fn in os.walk(root):
            for f in fn:
                p = os.path.join(dp, f)
                rel = os.path.relpath(p, root)
                try:
                    with open(p, "rb") as fh:
                        out[rel] = fh.read()
                except OSError:
                    out[rel] = None
    return out


def run_one(root, routine, ids, fault_at=None, fault_kind=None):
    """-> (outcome, event log)"""
    layer = fsint.Layer(root)
    count = [0]

    tripped = [False]

    def hook(ev):
        if ev["op"] in FAULT_OPS:
            count[0] += 1
            if fault_at is not None and count[0] == fault_at:
                ev["injected"] = fault_kind
                tripped[0] = True
                raise FAULTS[fault_kind.replace("-persistent", "")]()
            if tripped[0] and fault_kind.endswith("-persistent") and ev["op"] in ("write", "flush", "fsync", "close-w"):
                # a full disk stays full: buffered data can never be drained, every later write/flush/close of a file with
                # pending data fails again (this is what BufferedWriter does after a failed flush)
                ev["injected"] = fault_kind + "(again)"
                raise FAULTS["ENOSPC"]()
    layer.hook = hook
    fsint.install(layer)
    layer.register_actor("main")
    out = "ok"
    try:
        try:
            routine(root, ids)
        except KeyboardInterrupt:
            out = "raised:KeyboardInterrupt"
        except Exception as e:
            out = "raised:" + type(e).__name__
    finally:
        layer.unregister_actor()
        fsint.uninstall()
        for r_ in _st.pop("open_repos", []):
            try:
                r_.close()
            except Exception:
                pass
    gc.collect()
    return out, layer.log, count[0]


def run_fault(case):
    if "scratch" not in _st:
        _st["scratch"] = core.Scratch("c07-")
    if "tmpl" not in _st:
        _st["tmpl"] = _st["scratch"].sub("tmpl")
        _st["ids"] = build_repo(_st["tmpl"])
        _st["routines"] = routines()
    name = case["routine"]
    routine = _st["routines"][name]
    ids = _st["ids"]
    viol, stats = [], {}
    shared = bool(case.get("shared"))
    _st["shared_mode"] = shared
    if shared and "tmpl_shared" not in _st:
        _st["tmpl_shared"] = _st["scratch"].sub("tmpl-shared")
        shutil.rmtree(_st["tmpl_shared"])
        shutil.copytree(_st["tmpl"], _st["tmpl_shared"], symlinks=True)
        core.git(["config", "core.sharedRepository", "group"], cwd=_st["tmpl_shared"])
    base = _st["scratch"].sub("f%s%s" % (name, "-shared" if shared else ""))
    if shared:
        name = name + "+sharedRepository"

    def fresh(tag):
        d = os.path.join(base, tag)
        shutil.copytree(_st["tmpl_shared"] if shared else _st["tmpl"], d, symlinks=True)
        return d
    d0 = fresh("clean")
    before = tree_state(d0)
    out0, log0, n = run_one(d0, routine, ids)
    after = tree_state(d0)
    if out0 != "ok":
        shutil.rmtree(base, ignore_errors=True)
        return {"viol": [{"sig": "C07/fault/%s/HARNESS-routine-fails-without-fault-%s" % (name, out0)}], "stats": {}, "evaluations": 1}
    changed = sorted(k for k in set(before) | set(after) if before.get(k) != after.get(k))
    stats["fault_points"] = n
    stats["routines"] = 1
    ops0 = [e["op"] for e in log0 if e["op"] in FAULT_OPS]
    lock_replaced = {e.get("path2") for e in log0 if e["op"] in ("replace", "rename") and (e["path"] or "").endswith(".lock")}
    locks_used = sorted(set(e["path"] for e in log0 if e["path"] and e["path"].endswith(".lock")))
    nrun = 0
    outcomes = {}
    for k in range(1, n + 1):
        for fk in FAULT_KINDS:
            if fk == "ENOSPC-persistent" and ops0[k - 1] not in ("write", "flush", "fsync"):
                continue
            d = fresh("k%d%s" % (k, fk))
            out, log, _n = run_one(d, routine, ids, fault_at=k, fault_kind=fk)
            nrun += 1
            inj = [e for e in log if e.get("injected")]
            where = "%s:%s" % (inj[0]["op"], "lock" if (inj[0]["path"] or "").endswith(".lock") else "other") if inj else "none"
            st = tree_state(d)
            outcomes[out.split(":")[0]] = outcomes.get(out.split(":")[0], 0) + 1
            vtag = "%s/%s@%s" % (name, fk if fk in ("KeyboardInterrupt", "ENOSPC-persistent") else "OSError", where)
            # every file complete-old or complete-new
            for f in set(before) | set(st) | set(after):
                if f.endswith(".lock") or "/tmp_" in f or os.path.basename(f).startswith("tmp"):
                    continue
                if st.get(f) not in (before.get(f), after.get(f)):
                    viol.append({"sig": "C07/fault/%s/file-neither-old-nor-new" % vtag, "file": f, "k": k, "outcome": out})
            left = sorted(f for f in st if f.endswith(".lock"))
            if left:
                viol.append({"sig": "C07/fault/%s/lock-file-left-behind" % vtag, "locks": left, "k": k, "outcome": out})
            if out == "ok":
                # the fault was absorbed: the result must be the complete new state
                # (only files that are replaced through a lock file: removing a loose ref after packing it is not a locked write)
                for f in changed:
                    if f not in lock_replaced:
                        continue
                    if st.get(f) != after.get(f) and not f.endswith(".lock"):
                        viol.append({"sig": "C07/fault/%s/reported-success-but-file-not-new" % vtag, "file": f, "k": k})
                        break
            else:
                # a write that fails leaves the old content in place: judged for routines that replace exactly one file through one lock
                # (multi-step routines may legitimately fail after an earlier step was committed)
                if len(lock_replaced) == 1 and len(locks_used) == 1:
                    stats["failed_single_lock_writes_checked"] = stats.get("failed_single_lock_writes_checked", 0) + 1
                    for f in lock_replaced:
                        if f is not None and st.get(f) != before.get(f):
                            viol.append({"sig": "C07/fault/%s/write-reported-failure-but-new-content-is-in-place" % vtag, "file": f, "k": k, "outcome": out})
                # a following ordinary run of the same routine must not find the path locked
                out2, _l, _n2 = run_one(d, routine, ids)
                if out2 == "raised:FileLocked":
                    viol.append({"sig": "C07/fault/%s/next-writer-finds-path-locked" % vtag, "k": k})
            shutil.rmtree(d, ignore_errors=True)
    shutil.rmtree(base, ignore_errors=True)
    stats["fault_injections"] = nrun
    for k_, v in outcomes.items():
        stats["fault_outcome_" + k_] = v
    seen, outv = set(), []
    for v in viol:
        if v["sig"] not in seen:
            seen.add(v["sig"])
            v["routine"] = name
            outv.append(v)
    return {"viol": outv, "stats": stats, "evaluations": nrun, "nontrivial": ["fault:%s:%d" % (name, n), "fault:%s:locks%d" % (name, len(locks_used))],
            "sample": {"routine": name, "fault_points": n, "calls": [(e["op"], e["path"]) for e in log0 if e["op"] in FAULT_OPS][:30], "changed_files": changed[:10]}}


def worker_exit():
    if "scratch" in _st:
        _st["scratch"].cleanup()


def run_case(case):
    return {"sched": run_sched, "fault": run_fault}[case["kind"]](case)


ROUTINES = ["index_write", "set_if_equals", "set_packed", "add_if_new", "remove_loose", "remove_packed", "symref", "pack_refs", "add_packed",
            "locked_ref", "config", "add_object", "shallow", "commit_graph", "named_file", "gitfile_big"]


def main(ctx):
    cases = []
    big = 20000  # > default buffer: write reaches the fd before close
    two = [
        ("2w-close-close", [(3, 1, "close", None), (3, 1, "close", None)]),
        ("2w-close-abort", [(3, 1, "close", None), (4, 2, "abort", None)]),
        ("2w-big-small", [(big, 2, "close", None), (2, 1, "close", None)]),
        ("2w-unbuffered", [(6, 3, "close", 0), (5, 1, "close", 0)]),
        ("2w-abort-abort", [(3, 1, "abort", None), (3, 1, "abort", None)]),
        ("2w-noinitial", [(3, 1, "close", None), (3, 2, "close", None)]),
    ]
    for name, shape in two:
        cases.append({"kind": "sched", "name": name, "seed": "%d/%s" % (ctx.seed, name), "shape": shape, "max_runs": ctx.budget(3000, 40000),
                      "bound": None, "initial": name != "2w-noinitial"})
    three = [
        ("3w-close", [(3, 1, "close", None), (3, 1, "close", None), (3, 1, "close", None)]),
        ("3w-mixed", [(3, 1, "close", None), (big, 2, "abort", None), (2, 1, "close", 0)]),
    ]
    for name, shape in three:
        cases.append({"kind": "sched", "name": name, "seed": "%d/%s" % (ctx.seed, name), "shape": shape, "max_runs": ctx.budget(4000, 60000),
                      "bound": 2 if not ctx.thorough else 3})
    for r in ROUTINES:
        cases.append({"kind": "fault", "routine": r})
        if r not in ("gitfile_big",):
            cases.append({"kind": "fault", "routine": r, "shared": True})
    ctx.rule = ("schedules: all interleavings at interposed-call granularity of 2 GitFile writers (6 shapes: payload sizes below/above the buffer, "
                "unbuffered, close/abort mixes, with/without initial file), 3 writers under preemption bound %d; faults: every call of "
                "%d routines that write through the lock protocol x {ENOSPC, EIO, EPERM, KeyboardInterrupt}. non-trivial = distinct "
                "interleaving / distinct (routine, fault point)." % (3 if ctx.thorough else 2, len(ROUTINES)))
    ctx.assumptions = ["atomicity of a single rename(2)/open(O_EXCL) is assumed from POSIX", "interleavings are at the granularity of interposed calls",
                       "release of a lock is judged after the exception was handled and garbage collected (CPython __del__ cleanup counts)"]
    explored = []
    n_inter = [0]

    def on_result(case, out):
        if out["status"] != "ok":
            if out["status"] == "timeout":
                ctx.inconc("timeout " + case.get("name", case.get("routine", "")))
            else:
                ctx.violation("C07/%s/harness-%s/%s" % (case["kind"], out["status"], out.get("exc")), case, out)
            return
        res = out["result"]
        ctx.merge(res)
        for v in res.get("viol", []):
            ctx.violation(v["sig"], case, v)
        if res.get("sample"):
            ctx.sample(res["sample"], case["kind"])
        if case["kind"] == "sched":
            explored.append({"scenario": case["name"], "schedules": res["stats"].get("schedules"), "exploration": res.get("exploration")})
            n_inter[0] += res.get("n_interleavings", 0)

    pool.pmap("vt.checks.c07", cases, timeout=1500, on_result=on_result)
    ctx.info["schedule_exploration"] = explored
    ctx.info["distinct_interleavings"] = n_inter[0]
    ctx.exhaustive = False
    ctx.explanation = "2-writer scenarios are explored exhaustively when 'exploration.exhausted' is true in schedule_exploration; fault points are enumerated exhaustively per routine"
    if not ctx.stats["schedules"] or not ctx.stats["fault_injections"]:
        return "monitors never reached (schedules=%d, injections=%d)" % (ctx.stats["schedules"], ctx.stats["fault_injections"])
    return None
