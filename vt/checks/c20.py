"""C20 — configuration files round-trip and mean the same to dulwich and git.

Monitors (oracle = equality of ordered multi-dicts, git as independent reader/writer):
  values   exhaustive values up to length L over the special alphabet + random long values:
           dulwich write -> dulwich read, dulwich write -> `git config --list -z`
  names    section/subsection/key spelling and case rules, multi-values (order), d->d and d->git
  git2d    git writes (git config --file F [--add] key value) -> dulwich reads
  ops      sequences of set/add(unset)/rewrite on a live ConfigFile against a shadow model,
           written and re-read (by dulwich and git) after every step
"""
import io
import itertools
import os
import random

from vt import core, pool

LEVEL = "exploration"
ALPHABET = [b" ", b"\t", b'"', b"\\", b"#", b";", b"\n", b"\r", b"n", b"t", b"b", b"a", b"\x0b", b"\x0c",
            b"\x08", b"\x80"]
_scratch = None


def worker_init():
    global _scratch
    _scratch = core.Scratch("c20-")


def worker_exit():
    if _scratch:
        _scratch.cleanup()


# ---------------------------------------------------------------------------------------
def classify_value(v: bytes) -> str:
    """Mechanism signature for a value that did not survive (never a hash of the value)."""
    f = []
    if b"\r" in v:
        f.append("cr")
    if b";" in v:
        f.append("semicolon")
    if v[:1] in (b"\x0b", b"\x0c") or v[-1:] in (b"\x0b", b"\x0c"):
        f.append("vtff-edge")
    if b"\n" in v:
        f.append("lf")
    if b"\x08" in v:
        f.append("bs")
    if not f:
        if b"#" in v:
            f.append("hash")
        if b'"' in v:
            f.append("quote")
        if b"\\" in v:
            f.append("backslash")
        if v[:1] in (b" ", b"\t") or v[-1:] in (b" ", b"\t"):
            f.append("blank-edge")
    return "+".join(f[:2]) or "plain"


def git_list(path):
    r = core.git(["config", "--file", path, "--list", "-z"], check=False)
    if r.returncode != 0:
        return None, r.stderr.decode(errors="replace")[-200:]
    out = []
    for ent in r.stdout.split(b"\0")[:-1]:
        if b"\n" in ent:
            k, v = ent.split(b"\n", 1)
        else:
            k, v = ent, None
        out.append((k, v))
    return out, None


def git_roundtrips(value: bytes, d) -> bool:
    """Control: can git itself store and read back this value?"""
    p = os.path.join(d, "ctl.cfg")
    if os.path.exists(p):
        os.unlink(p)
    r = core.git(["config", "--file", p, "s.k", value], check=False)
    if r.returncode != 0:
        return False
    lst, err = git_list(p)
    return lst == [(b"s.k", value)]


def dul_items(cf):
    out = []
    for sec in cf.sections():
        for k, v in cf.items(sec):
            out.append((tuple(sec), k, v))
    return out


def run_values(case):
    from dulwich.config import ConfigFile
    vals = [core.unhx(h) for h in case["values"]]
    viol, stats, nontriv = [], {}, []
    cf = ConfigFile()
    for i, v in enumerate(vals):
        cf.set((b"s",), b"k%d" % i, v)
    buf = io.BytesIO()
    cf.write_to_file(buf)
    data = buf.getvalue()
    # d -> d
    try:
        back = ConfigFile.from_file(io.BytesIO(data), expand_includes=False)
        got = {k: v for _, k, v in dul_items(back)}
        err = None
    except Exception as e:  # whole file unreadable: find the culprit per value
        got, err = None, e
    stats["values_d2d"] = len(vals)
    bad = []
    if got is None:
        for i, v in enumerate(vals):
            c1 = ConfigFile()
            c1.set((b"s",), b"k", v)
            b1 = io.BytesIO()
            c1.write_to_file(b1)
            try:
                g = dict((k, x) for _, k, x in dul_items(ConfigFile.from_file(io.BytesIO(b1.getvalue()))))
                if g.get(b"k") != v:
                    bad.append((v, g.get(b"k")))
            except Exception as e:
                bad.append((v, "raise:" + type(e).__name__))
    else:
        for i, v in enumerate(vals):
            if got.get(b"k%d" % i) != v:
                bad.append((v, got.get(b"k%d" % i)))
    for v, g in bad:
        viol.append({"sig": "C20/d2d/value/" + classify_value(v), "value": core.hx(v),
                     "got": core.hx(g) if isinstance(g, bytes) else g})
    # d -> git
    if case.get("git", True):
        d = _scratch.sub("v")
        p = os.path.join(d, "f.cfg")
        with open(p, "wb") as f:
            f.write(data)
        lst, gerr = git_list(p)
        stats["git_list_runs"] = 1
        gbad = []
        if lst is None:
            # isolate: one file per value
            for i, v in enumerate(vals):
                c1 = ConfigFile()
                c1.set((b"s",), b"k", v)
                with open(p, "wb") as f:
                    c1.write_to_file(f)
                l1, e1 = git_list(p)
                stats["git_list_runs"] += 1
                if l1 != [(b"s.k", v)]:
                    gbad.append((v, l1 if l1 is None else (l1[0][1] if l1 else None), e1))
        else:
            gd = dict(lst)
            for i, v in enumerate(vals):
                gv = gd.get(b"s.k%d" % i)
                if gv != v:
                    gbad.append((v, gv, None))
        stats["values_d2git"] = len(vals)
        for v, gv, e in gbad:
            if not git_roundtrips(v, d):
                stats["excluded_git_cannot_roundtrip"] = stats.get("excluded_git_cannot_roundtrip", 0) + 1
                continue
            viol.append({"sig": "C20/d2git/value/" + classify_value(v), "value": core.hx(v),
                         "git_got": core.hx(gv) if isinstance(gv, bytes) else gv, "git_err": e})
    for v in vals:
        cls = classify_value(v)
        if cls != "plain":
            nontriv.append("v:" + cls + ":" + str(len(v)))
    return {"viol": viol, "stats": stats, "nontrivial": list(set(nontriv)), "evaluations": len(vals)}


# ---------------------------------------------------------------------------------------
SEC_CH = b"abcXYZ019-"
KEY_CH = b"abcXYZ019-"


def gen_name(rng, chars, first_alpha=True):
    n = rng.randint(1, 8)
    s = bytes(rng.choice(chars) for _ in range(n))
    if first_alpha and not s[:1].isalpha():
        s = b"q" + s
    return s


def gen_subsection(rng):
    ab = [b'"', b"\\", b".", b" ", b"]", b"[", b"#", b";", b"a", b"B", b"\t", b"=", b"\x80", b"\xff", b"'", b"\r"]
    return b"".join(rng.choice(ab) for _ in range(rng.randint(0, 7)))


def gen_value(rng):
    r = rng.random()
    if r < 0.5:
        return b"".join(rng.choice(ALPHABET) for _ in range(rng.randint(0, 9)))
    if r < 0.8:
        return bytes(rng.choice(range(1, 256)) for _ in range(rng.randint(0, 40)))
    return rng.choice([b"", b"true", b"\\", b"\\\\", b"a\\", b"a\\\\", b'"', b'""', b' a ', b"\ta\t", b"a b",
                       b"a  b", b"#", b";", b"a#b", b"a;b", b"a\nb", b"\n", b"a\\nb", b"\\n", b"a\"b\"c",
                       b"x" * 5000, b" " * 3, b"a \\", b"a\\ ", b"\\t", b"\\b", b"\x08"])


def model_key(sec, key):
    """git's case rules: section and key case-insensitive, subsection case-sensitive."""
    if len(sec) == 2:
        return (sec[0].lower(), sec[1], key.lower())
    return (sec[0].lower(), None, key.lower())


def git_keyname(mk):
    s, sub, k = mk
    return s + b"." + (sub + b"." if sub is not None else b"") + k


def run_names(case):
    """Random config with odd names, multi-values, case variation: d->d, d->git."""
    from dulwich.config import ConfigFile
    rng = random.Random(case["seed"])
    viol, stats, nontriv = [], {}, []
    cf = ConfigFile()
    model = []  # ordered list of (mk, value)
    secs = []
    for _ in range(rng.randint(1, 5)):
        s = gen_name(rng, SEC_CH)
        if rng.random() < 0.6:
            sub = gen_subsection(rng)
            if b"\n" in sub or b"\0" in sub:
                continue
            secs.append((s, sub))
        else:
            secs.append((s,))
    if not secs:
        secs = [(b"s",)]
    keys = [gen_name(rng, KEY_CH) for _ in range(4)]
    ops = []
    for _ in range(rng.randint(1, 12)):
        sec = rng.choice(secs)
        if rng.random() < 0.3:  # case variant of section / key
            sec = (sec[0].swapcase(),) + tuple(sec[1:])
        key = rng.choice(keys)
        if rng.random() < 0.3:
            key = key.swapcase()
        v = gen_value(rng)
        if b"\0" in v:
            continue
        mk = model_key(sec, key)
        if rng.random() < 0.4:
            cf.add(sec, key, v)
            model.append((mk, v))
            ops.append(["add", [core.hx(x) for x in sec], core.hx(key), core.hx(v)])
        else:
            cf.set(sec, key, v)
            # set replaces all values of that key; keeps position of first? model: compare as per-key lists
            model = [(m, x) for m, x in model if m != mk] + [(mk, v)]
            ops.append(["set", [core.hx(x) for x in sec], core.hx(key), core.hx(v)])
    per_key = {}
    for mk, v in model:
        per_key.setdefault(mk, []).append(v)
    buf = io.BytesIO()
    try:
        cf.write_to_file(buf)
    except ValueError as e:
        return {"viol": [], "stats": {"names_refused_by_writer": 1}, "evaluations": 1}
    data = buf.getvalue()
    stats["names_cases"] = 1

    def sig_for(mk, want, got):
        if mk[1] is not None and want is not None and any(classify_value(x) != "plain" for x in want):
            pass
        vs = [classify_value(x) for x in (want or [])]
        vs = sorted(set(x for x in vs if x != "plain"))
        return ("value/" + vs[0]) if vs else ("subsection" if mk[1] else "name")

    # d -> d
    try:
        back = ConfigFile.from_file(io.BytesIO(data), expand_includes=False)
        got = {}
        for sec, k, v in dul_items(back):
            got.setdefault(model_key(sec, k), []).append(v)
        for mk, want in per_key.items():
            if got.get(mk) != want:
                viol.append({"sig": "C20/d2d/" + sig_for(mk, want, got.get(mk)), "key": repr(mk),
                             "want": [core.hx(x) for x in want],
                             "got": [core.hx(x) for x in got.get(mk, [])]})
        for mk in got:
            if mk not in per_key:
                viol.append({"sig": "C20/d2d/extra-key", "key": repr(mk)})
        # also through the API (get / get_multivar) with a different spelling
        for mk, want in per_key.items():
            sec = (mk[0].upper(),) + ((mk[1],) if mk[1] is not None else ())
            try:
                mv = list(back.get_multivar(sec, mk[2].upper()))
            except KeyError:
                mv = None
            if mv != want:
                viol.append({"sig": "C20/d2d/api-case/" + sig_for(mk, want, mv), "key": repr(mk)})
    except Exception as e:
        feats = sorted(set(sig_for(mk, want, None) for mk, want in per_key.items()))
        viol.append({"sig": "C20/d2d/unreadable/" + "+".join(feats[:2]), "exc": type(e).__name__ + ": " + str(e)[:100]})
    # d -> git
    d = _scratch.sub("n")
    p = os.path.join(d, "f.cfg")
    with open(p, "wb") as f:
        f.write(data)
    lst, gerr = git_list(p)
    stats["git_list_runs"] = 1
    if lst is None:
        # git refuses the file: only a violation if git can itself hold every value
        ok_vals = all(git_roundtrips(v, d) for vs in per_key.values() for v in vs)
        if ok_vals:
            feats = sorted(set(sig_for(mk, want, None) for mk, want in per_key.items()))
            viol.append({"sig": "C20/d2git/rejected/" + "+".join(feats[:2]), "git_err": gerr})
        else:
            stats["excluded_git_cannot_roundtrip"] = 1
    else:
        gg = {}
        for k, v in lst:
            gg.setdefault(k, []).append(v)
        for mk, want in per_key.items():
            g = gg.get(git_keyname(mk))
            if g != want:
                if all(git_roundtrips(v, d) for v in want):
                    viol.append({"sig": "C20/d2git/" + sig_for(mk, want, g), "key": repr(mk),
                                 "want": [core.hx(x) for x in want],
                                 "git_got": None if g is None else [core.hx(x) if x is not None else None for x in g]})
                else:
                    stats["excluded_git_cannot_roundtrip"] = stats.get("excluded_git_cannot_roundtrip", 0) + 1
    nt = []
    if any(len(v) > 1 for v in per_key.values()):
        nt.append("multivalue")
    if any(mk[1] for mk in per_key):
        nt.append("subsection")
    return {"viol": [dict(v, ops=ops) for v in viol], "stats": stats,
            "nontrivial": ["names:%s:%d" % ("+".join(nt), len(per_key))], "evaluations": 1}


# ---------------------------------------------------------------------------------------
def run_git2d(case):
    """git writes values, dulwich reads."""
    from dulwich.config import ConfigFile
    rng = random.Random(case["seed"])
    d = _scratch.sub("g")
    p = os.path.join(d, "g.cfg")
    viol, stats = [], {}
    want = {}
    n = 0
    sub_used = False
    for i in range(case.get("n", 12)):
        v = core.unhx(case["values"][i]) if "values" in case else gen_value(rng)
        if b"\0" in v:
            continue
        sec = b"s%d" % rng.randint(0, 2)
        sub = None
        if rng.random() < 0.3:
            sub = gen_subsection(rng)
            if b"\n" in sub or b"\0" in sub:
                sub = None
        key = b"k%d" % rng.randint(0, 3)
        name = sec + b"." + (sub + b"." if sub is not None else b"") + key
        add = rng.random() < 0.5
        r = core.git(["config", "--file", p] + (["--add"] if add else []) + [name, v], check=False)
        stats["git_config_writes"] = stats.get("git_config_writes", 0) + 1
        if r.returncode != 0:
            stats["git_refused"] = stats.get("git_refused", 0) + 1
            continue
        sub_used = sub_used or sub is not None
    if not os.path.exists(p):
        return {"viol": [], "stats": stats, "evaluations": 1}
    lst, err = git_list(p)
    if lst is None:
        return {"viol": [], "stats": stats, "evaluations": 1}
    gg = {}
    for k, v in lst:
        gg.setdefault(k, []).append(v)
    try:
        back = ConfigFile.from_path(p, expand_includes=False)
        got = {}
        for sec, k, v in dul_items(back):
            got.setdefault(git_keyname(model_key(sec, k)), []).append(v)
    except Exception as e:
        feats = sorted(set(classify_value(v) for vs in gg.values() for v in vs if v) - {"plain"})
        return {"viol": [{"sig": "C20/git2d/unreadable/" + "+".join(feats[:2]) + ("/sub" if sub_used else ""),
                          "exc": type(e).__name__ + ": " + str(e)[:100],
                          "file": core.hx(open(p, "rb").read()[:2000])}], "stats": stats, "evaluations": 1}
    for k, vs in gg.items():
        if got.get(k) != vs:
            cls = sorted(set(classify_value(v) for v in vs if v) - {"plain"})
            viol.append({"sig": "C20/git2d/" + ("value/" + cls[0] if cls else "name"), "key": core.hx(k),
                         "git": [core.hx(v) for v in vs if v is not None],
                         "dulwich": [core.hx(v) for v in got.get(k, [])],
                         "file": core.hx(open(p, "rb").read()[:2000])})
    for k in got:
        if k not in gg:
            viol.append({"sig": "C20/git2d/extra-key", "key": core.hx(k)})
    stats["git2d_values"] = sum(len(v) for v in gg.values())
    return {"viol": viol, "stats": stats, "nontrivial": ["g2d:%d:%s" % (len(gg), sub_used)], "evaluations": 1}


# ---------------------------------------------------------------------------------------
def run_ops(case):
    """Operation sequences on a live ConfigFile against a shadow model; write + re-read each step."""
    from dulwich.config import ConfigFile
    rng = random.Random(case["seed"])
    d = _scratch.sub("o")
    p = os.path.join(d, "o.cfg")
    cf = ConfigFile()
    model = {}  # mk -> list of values; section order irrelevant for equality of per-key lists
    viol, stats = [], {}
    secs = [(b"core",), (b"Remote", b"Origin"), (b"remote", b"origin"), (b"branch", b"a.b c"), (b"x", b'q"\\')]
    keys = [b"url", b"Fetch", b"fetch", b"k-1"]
    if case.get("focus"):
        # few names, so that one key is hit again and again (multi-valued keys that are then set, re-added, removed, re-read)
        secs = rng.sample(secs, 1) if rng.random() < 0.5 else [(b"Remote", b"Origin"), (b"remote", b"Origin")]
        keys = rng.choice([[b"Fetch", b"fetch"], [b"url", b"Fetch", b"fetch"], [b"k-1"]])
    trace = []
    for step in range(case.get("steps", 10)):
        op = rng.choice(["set", "set", "add", "del", "delsec", "reload"])
        sec = rng.choice(secs)
        key = rng.choice(keys)
        mk = model_key(sec, key)
        v = gen_value(rng)
        if b"\0" in v:
            v = b"z"
        if rng.random() < 0.5:
            # values recur: a small pool, and the values the key already holds (its first, its last, one in the middle), so that an
            # operation meets a key whose current content coincides with its argument
            v = rng.choice([b"a", b"b", b"a b"] + model.get(mk, []))
        trace.append([op, repr(sec), repr(key), core.hx(v)])
        try:
            if op == "set":
                cf.set(sec, key, v)
                model[mk] = [v]
            elif op == "add":
                cf.add(sec, key, v)
                model.setdefault(mk, []).append(v)
            elif op == "del":
                try:
                    cf.remove(sec, key)
                    if mk not in model:
                        viol.append({"sig": "C20/ops/remove-absent-no-error", "step": step})
                    model.pop(mk, None)
                except KeyError:
                    if mk in model:
                        viol.append({"sig": "C20/ops/delete-keyerror-on-present", "step": step})
            elif op == "delsec":
                try:
                    del cf[sec]
                    for m in [m for m in model if m[0] == mk[0] and m[1] == mk[1]]:
                        del model[m]
                except KeyError:
                    if any(m[0] == mk[0] and m[1] == mk[1] for m in model):
                        viol.append({"sig": "C20/ops/delsec-keyerror-on-present", "step": step})
            elif op == "reload":
                cf.write_to_path(p)
                cf = ConfigFile.from_path(p, expand_includes=False)
        except Exception as e:
            viol.append({"sig": "C20/ops/raise/" + op + "/" + type(e).__name__, "step": step, "msg": str(e)[:100]})
            break
        # observe
        cf.write_to_path(p)
        stats["ops_steps"] = stats.get("ops_steps", 0) + 1
        try:
            back = ConfigFile.from_path(p, expand_includes=False)
        except Exception as e:
            cls = sorted(set(classify_value(x) for vs in model.values() for x in vs) - {"plain"})
            viol.append({"sig": "C20/ops/unreadable/" + "+".join(cls[:2]), "step": step, "exc": type(e).__name__})
            break
        got = {}
        for s, k, x in dul_items(back):
            got.setdefault(model_key(s, k), []).append(x)
        live = {}
        for s, k, x in dul_items(cf):
            live.setdefault(model_key(s, k), []).append(x)
        if live != model:
            viol.append({"sig": "C20/ops/live-state-differs-from-model/" + op, "step": step,
                         "model": repr(sorted(model.items()))[:300], "live": repr(sorted(live.items()))[:300]})
            break
        if got != model:
            diff = [m for m in set(model) | set(got) if model.get(m) != got.get(m)]
            cls = sorted(set(classify_value(x) for m in diff for x in model.get(m, [])) - {"plain"})
            viol.append({"sig": "C20/ops/reread/" + ("value/" + cls[0] if cls else "structure"), "step": step,
                         "diff": repr([(m, model.get(m), got.get(m)) for m in diff])[:400]})
            break
    return {"viol": [dict(v, trace=trace) for v in viol], "stats": stats,
            "nontrivial": ["ops:%d" % len(model)], "evaluations": 1}


def run_case(case):
    if _scratch is None:
        worker_init()
    k = case["kind"]
    try:
        return {"values": run_values, "names": run_names, "git2d": run_git2d, "ops": run_ops}[k](case)
    finally:
        # keep scratch small
        for n in os.listdir(_scratch.path):
            import shutil
            shutil.rmtree(os.path.join(_scratch.path, n), ignore_errors=True)


# ---------------------------------------------------------------------------------------
def main(ctx):
    L = 5 if ctx.thorough else 4
    cases = []
    allv = []
    for n in range(0, L + 1):
        for t in itertools.product(ALPHABET, repeat=n):
            allv.append(b"".join(t))
    # thorough additionally samples length 5
    rng = ctx.sub_rng("values")
    extra = []
    for _ in range(ctx.budget(6000, 150000)):
        n = rng.randint(L + 1, L + 4)
        extra.append(b"".join(rng.choice(ALPHABET) for _ in range(n)))
    for _ in range(ctx.budget(2000, 20000)):
        extra.append(gen_value(rng))
    extra = [v for v in extra if b"\0" not in v]
    B = 128
    for i in range(0, len(allv), B):
        cases.append({"kind": "values", "values": [core.hx(v) for v in allv[i:i + B]], "exh": True})
    for i in range(0, len(extra), B):
        cases.append({"kind": "values", "values": [core.hx(v) for v in extra[i:i + B]]})
    for i in range(ctx.budget(600, 8000)):
        cases.append({"kind": "names", "seed": "%d/n/%d" % (ctx.seed, i)})
    for i in range(ctx.budget(150, 3000)):
        cases.append({"kind": "git2d", "seed": "%d/g/%d" % (ctx.seed, i), "n": 12})
    # git writes every value of the exhaustive set up to length 2 (+ sample of longer)
    g2 = [v for v in allv if len(v) <= 2 and b"\0" not in v]
    for i in range(0, len(g2), 12):
        cases.append({"kind": "git2d", "seed": "%d/gx/%d" % (ctx.seed, i), "n": len(g2[i:i + 12]),
                      "values": [core.hx(v) for v in g2[i:i + 12]]})
    for i in range(ctx.budget(300, 4000)):
        cases.append({"kind": "ops", "seed": "%d/o/%d" % (ctx.seed, i), "steps": 10})
        cases.append({"kind": "ops", "seed": "%d/of/%d" % (ctx.seed, i), "steps": 14, "focus": True})
    ctx.rule = ("values: ALL byte strings of length <= %d over the 16-symbol special alphabet %s (exhaustive) plus random "
                "longer ones; names/ops/git2d: seeded random. non-trivial = distinct (special-character class, length) "
                "for values, distinct (feature, size) for the others; plain alphanumeric values are trivial." % (
                    L, [a.decode('latin1') for a in ALPHABET]))
    ctx.explanation = ("exhaustive sub-space: all values of length <= %d over the alphabet, dulwich->dulwich and "
                       "dulwich->git (--list -z). git->dulwich exhaustive up to length 2." % L)
    ctx.exhaustive = False
    ctx.assumptions = ["git 2.39.5 `config --list -z` is the reference reader; values git cannot round-trip itself "
                       "(control run) are excluded from interop comparison only"]

    def on_result(case, out):
        if out["status"] != "ok":
            if out["status"] == "timeout":
                ctx.inconc("timeout " + case["kind"])
            else:
                ctx.violation("C20/harness/" + out["status"] + "/" + str(out.get("exc")), case, out)
            return
        res = out["result"]
        ctx.merge(res)
        for v in res.get("viol", []):
            ctx.violation(v["sig"], _single(case, v), v)
        if case["kind"] != "values" or ctx.stats["sampled"] < 2:
            ctx.sample({k: case[k] for k in case if k != "values"} | (
                {"values": case["values"][:6]} if "values" in case else {}), case["kind"])
            ctx.count("sampled")

    pool.pmap("vt.checks.c20", cases, timeout=300, on_result=on_result)
    if ctx.stats["values_d2d"] < len(allv):
        return "only %d of %d exhaustive values evaluated" % (ctx.stats["values_d2d"], len(allv))
    return None


def _single(case, v):
    if case["kind"] == "values" and "value" in v:
        return {"kind": "values", "values": [v["value"]]}
    return case
