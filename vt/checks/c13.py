"""C13 — merge-base, ancestry and history walks are exact on every DAG and clock.

Oracle: ancestor bitsets over the generated DAG (vt-local reference), cross-validated against C git
(`merge-base --all/--is-ancestor/--independent/--octopus`, `rev-list`) on fast-import'ed copies.
The real functions run on MemoryRepo (exhaustive part) and on on-disk repositories made by git.
"""
import itertools
import os
import random

from vt import core, pool

LEVEL = "exploration"


# ------------------------------------------------------------------------------ reference
def anc_sets(parents):
    """parents[i] = tuple of earlier node indices. Returns list of bitmasks anc*[i] (incl. self)."""
    anc = []
    for i, ps in enumerate(parents):
        m = 1 << i
        for p in ps:
            m |= anc[p]
        anc.append(m)
    return anc


def bits(m):
    out, i = [], 0
    while m:
        if m & 1:
            out.append(i)
        m >>= 1
        i += 1
    return out


def maximal(mask, anc):
    """elements of mask that are not proper ancestors of another element of mask"""
    out = []
    for i in bits(mask):
        if not any(j != i and (anc[j] >> i) & 1 for j in bits(mask)):
            out.append(i)
    return out


def clock_class(parents, times):
    strict = mono = True
    for i, ps in enumerate(parents):
        for p in ps:
            if times[i] <= times[p]:
                strict = False
            if times[i] < times[p]:
                mono = False
    return "strict" if strict else "monotone-ties" if mono else "skewed"


# ------------------------------------------------------------------------------ building repos
def build_memrepo(parents, times):
    from dulwich.objects import Commit, Tree
    from dulwich.repo import MemoryRepo
    r = MemoryRepo()
    t = Tree()
    r.object_store.add_object(t)
    ids = []
    for i, ps in enumerate(parents):
        c = Commit()
        c.tree = t.id
        c.parents = [ids[p] for p in ps]
        c.author = c.committer = b"A <a@b>"
        c.author_time = c.commit_time = times[i]
        c.author_timezone = c.commit_timezone = 0
        c.message = b"c%d" % i
        r.object_store.add_object(c)
        ids.append(c.id)
    return r, ids


def check_repo(repo, ids, parents, times, anc, cls, viol, stats, level, rng, walk_store=None):
    """Run the query battery on one (DAG, clock). level: 'full' (pairs, triples, walks) or 'pairs'."""
    from dulwich.graph import can_fast_forward, find_merge_base, find_octopus_base, independent
    from dulwich.walk import ORDER_DATE, ORDER_TOPO, Walker
    n = len(ids)
    idx = {s: i for i, s in enumerate(ids)}
    desc = {"parents": [list(p) for p in parents], "times": list(times)}

    def V(sig, **kw):
        viol.append(dict(sig=sig + "/" + cls, dag=desc, **kw))

    def classify(got, want):
        g, w = set(got), set(want)
        if len(got) != len(g):
            return "duplicate-results"
        if g > w:
            return "extra-non-maximal" if all(any((anc[x] >> y) & 1 for x in w) for y in g - w) else "extra-unrelated"
        if g < w:
            return "missing-lca"
        return "wrong-set"

    # pairs
    for a in range(n):
        for b in range(n):
            stats["queries"] = stats.get("queries", 0) + 2
            want = maximal(anc[a] & anc[b], anc)
            try:
                got = [idx[x] for x in find_merge_base(repo, [ids[a], ids[b]])]
            except Exception as e:
                V("C13/merge-base/raise-" + type(e).__name__, q=[a, b])
                got = want
            if sorted(got) != sorted(want):
                V("C13/merge-base/" + classify(got, want), q=[a, b], got=got, want=want)
            wff = bool((anc[b] >> a) & 1)
            try:
                gff = can_fast_forward(repo, ids[a], ids[b])
            except Exception as e:
                V("C13/can-ff/raise-" + type(e).__name__, q=[a, b])
                gff = wff
            if gff != wff:
                V("C13/can-ff/" + ("false-negative" if wff else "false-positive"), q=[a, b])
    if level == "pairs":
        return
    # triples / sets
    trip = list(itertools.permutations(range(n), 3)) if n <= 4 else [tuple(rng.sample(range(n), 3)) for _ in range(12)]
    for q in trip:
        stats["queries"] = stats.get("queries", 0) + 3
        a, b, c = q
        want = maximal(anc[a] & (anc[b] | anc[c]), anc)
        got = [idx[x] for x in find_merge_base(repo, [ids[a], ids[b], ids[c]])]
        if sorted(got) != sorted(want):
            V("C13/merge-base-many/" + classify(got, want), q=list(q), got=got, want=want)
        want = maximal(anc[a] & anc[b] & anc[c], anc)
        got = [idx[x] for x in find_octopus_base(repo, [ids[a], ids[b], ids[c]])]
        if sorted(set(got)) != sorted(want):
            V("C13/octopus-base/" + classify(sorted(set(got)), want), q=list(q), got=got, want=want)
        elif len(got) != len(set(got)):
            stats["octopus_duplicate_results"] = stats.get("octopus_duplicate_results", 0) + 1
    for k in (2, 3):
        subs = list(itertools.combinations(range(n), k)) if n <= 4 else [tuple(rng.sample(range(n), k)) for _ in range(8)]
        for q in subs:
            stats["queries"] = stats.get("queries", 0) + 1
            want = [x for x in q if not any(y != x and (anc[y] >> x) & 1 for y in q)]
            got = [idx[x] for x in independent(repo, [ids[x] for x in q])]
            if got != want:
                V("C13/independent/" + ("kept-ancestor" if set(got) > set(want) else "dropped-independent" if set(got) < set(want) else "wrong"),
                  q=list(q), got=got, want=want)
    # walks
    store = walk_store or repo.object_store
    incs = [(i,) for i in range(n)] + (list(itertools.combinations(range(n), 2)) if n <= 4 else
                                       [tuple(rng.sample(range(n), 2)) for _ in range(6)])
    for inc in incs:
        reach = 0
        for i in inc:
            reach |= anc[i]
        for order in (ORDER_DATE, ORDER_TOPO):
            for reverse in (False, True):
                stats["walks"] = stats.get("walks", 0) + 1
                got = [idx[e.commit.id] for e in Walker(store, [ids[i] for i in inc], order=order, reverse=reverse)]
                walk_verdict(got, reach, parents, times, order, reverse, cls, V, dict(inc=list(inc), order=order, reverse=reverse), anc)
        # excludes: exact only under monotone clocks, otherwise only duplicate-free and subset of reachable(include)
        excs = [(j,) for j in range(n) if j not in inc][:4]
        for exc in excs:
            em = 0
            for j in exc:
                em |= anc[j]
            for order in (ORDER_DATE, ORDER_TOPO):
                stats["walks"] = stats.get("walks", 0) + 1
                got = [idx[e.commit.id] for e in Walker(store, [ids[i] for i in inc], exclude=[ids[j] for j in exc], order=order)]
                q = dict(inc=list(inc), exc=list(exc), order=order)
                if len(got) != len(set(got)):
                    V("C13/walk-exclude/duplicate", got=got, **q)
                elif cls == "skewed":
                    bad = [x for x in got if not (reach >> x) & 1]
                    if bad:
                        V("C13/walk-exclude/not-reachable-from-include", got=got, **q)
                else:
                    want = reach & ~em
                    gm = sum(1 << x for x in got)
                    if gm != want:
                        V("C13/walk-exclude/" + ("missed-commit" if want & ~gm else "yielded-excluded"), got=got, want=bits(want), **q)
                    elif order == ORDER_TOPO:
                        pos = {x: k for k, x in enumerate(got)}
                        if any(p in pos and pos[p] < pos[x] for x in got for p in parents[x]):
                            V("C13/walk-exclude/parent-before-child", got=got, **q)
        # since/until/max_entries: compared with the definitional filter under monotone clocks only
        if cls != "skewed":
            ts = sorted(set(times))
            for since, until in [(ts[len(ts) // 2], None), (None, ts[len(ts) // 2]), (ts[0], ts[-1])]:
                stats["walks"] = stats.get("walks", 0) + 1
                got = [idx[e.commit.id] for e in Walker(store, [ids[i] for i in inc], since=since, until=until)]
                want = [x for x in bits(reach) if (since is None or times[x] >= since) and (until is None or times[x] <= until)]
                if sorted(got) != sorted(want):
                    V("C13/walk-since-until/" + ("missed-commit" if set(want) - set(got) else "extra-or-duplicate"),
                      got=got, want=want, inc=list(inc), since=since, until=until)
                else:
                    # option combinations: a limit counts the commits that pass the filters, so the limited walk is a prefix of the filtered one
                    for k in (1, 2):
                        stats["walks"] = stats.get("walks", 0) + 1
                        gk = [idx[e.commit.id] for e in Walker(store, [ids[i] for i in inc], since=since, until=until, max_entries=k)]
                        if gk != got[:k]:
                            V("C13/walk-max-entries/not-a-prefix-of-the-filtered-walk/" + ("+".join(n_ for n_, v_ in (("since", since), ("until", until)) if v_ is not None)),
                              got=gk, filtered=got, inc=list(inc), k=k, since=since, until=until)
        full = [idx[e.commit.id] for e in Walker(store, [ids[i] for i in inc])]
        for k in (1, 2):
            stats["walks"] = stats.get("walks", 0) + 1
            got = [idx[e.commit.id] for e in Walker(store, [ids[i] for i in inc], max_entries=k)]
            if got != full[:k]:
                V("C13/walk-max-entries/not-a-prefix", got=got, full=full, inc=list(inc), k=k)


def walk_verdict(got, reach, parents, times, order, reverse, cls, V, q, anc):
    if len(got) != len(set(got)):
        V("C13/walk/duplicate", got=got, **q)
        return
    gm = sum(1 << x for x in got)
    if gm != reach:
        V("C13/walk/" + ("missed-commit" if reach & ~gm else "unreachable-commit"), got=got, want=bits(reach), **q)
        return
    seq = got[::-1] if reverse else got
    pos = {x: k for k, x in enumerate(seq)}
    if order == "topo":
        if any(pos[p] < pos[x] for x in seq for p in parents[x]):
            V("C13/walk/topo-parent-before-child", got=got, **q)
    elif cls == "strict" and len(set(times[x] for x in seq)) == len(seq):
        # date order is determined only for distinct, strictly monotone stamps
        if seq != sorted(seq, key=lambda x: -times[x]):
            V("C13/walk/date-order-wrong", got=got, **q)


# ------------------------------------------------------------------------------ case kinds
def all_dags(n):
    opts = []
    for i in range(n):
        subs = []
        for k in range(i + 1):
            subs += list(itertools.combinations(range(i), k))
        opts.append(subs)
    return itertools.product(*opts)


def weak_orders(n):
    seen = set()
    for t in itertools.product(range(n), repeat=n):
        ranks = sorted(set(t))
        canon = tuple(ranks.index(x) for x in t)
        if canon not in seen:
            seen.add(canon)
            yield canon


_WO = {}


def run_exh(case):
    n = case["n"]
    dags = list(all_dags(n))
    if n not in _WO:
        _WO[n] = list(weak_orders(n))
    viol, stats, nontriv = [], {}, []
    rng = random.Random(case["seed"])
    lo, hi = case["range"]
    clocks = _WO[n]
    if case.get("clock_sample"):
        clocks = rng.sample(clocks, case["clock_sample"]) + [tuple(range(n)), tuple(range(n - 1, -1, -1)), (0,) * n]
    ev = 0
    for parents in dags[lo:hi]:
        anc = anc_sets(parents)
        for times in clocks:
            cls = clock_class(parents, times)
            t = [1000000 + 100 * x for x in times]
            repo, ids = build_memrepo(parents, t)
            check_repo(repo, ids, parents, t, anc, cls, viol, stats, case.get("level", "full"), rng)
            ev += 1
            stats["cases_" + cls] = stats.get("cases_" + cls, 0) + 1
        nontriv.append("dag%d:%s" % (n, "".join(str(len(p)) for p in parents) + ":" + str(hash(parents) % 10 ** 8)))
    # keep one witness per signature
    seen, out = set(), []
    for v in viol:
        if v["sig"] not in seen:
            seen.add(v["sig"])
            out.append(v)
        stats["viol:" + v["sig"]] = stats.get("viol:" + v["sig"], 0) + 1
    return {"viol": out, "stats": stats, "nontrivial": nontriv, "evaluations": ev}


def gen_ladder(rng):
    """chain + shortcut merges over chain nodes + a final merge: the shape on which a time-ordered common-ancestor walk yields several
    candidates lying on one chain (needs >= 7 commits and a clock that runs backwards somewhere to matter)."""
    L = rng.randrange(3, 8)
    parents = [()] + [(i - 1,) for i in range(1, L)]
    for _ in range(rng.randrange(1, 4)):
        k = rng.choice([2, 2, 3])
        parents.append(tuple(sorted(rng.sample(range(len(parents)), min(k, len(parents))), reverse=True)))
    parents.append((L - 1,))
    n = len(parents)
    parents.append(tuple(sorted(rng.sample(range(L, n), min(2, n - L)), reverse=True)))
    if rng.random() < 0.3:
        parents.append(tuple(sorted(rng.sample(range(len(parents)), 2), reverse=True)))
    return parents


def run_ladder(case):
    """many small ladder DAGs x fully permuted (or tied) clocks, all pair queries."""
    rng = random.Random(case["seed"])
    viol, stats, nontriv = [], {}, set()
    for _ in range(case["count"]):
        parents = gen_ladder(rng)
        n = len(parents)
        times = [1000000 + 100 * i for i in range(n)]
        mode = rng.choice(["perm", "perm", "perm", "perm-ties", "reversed"])
        if mode == "perm":
            rng.shuffle(times)
        elif mode == "perm-ties":
            times = [1000000 + 100 * rng.randrange(max(2, n // 2)) for _ in range(n)]
        else:
            times.reverse()
        anc = anc_sets(parents)
        cls = clock_class(parents, times)
        repo, ids = build_memrepo(parents, times)
        check_repo(repo, ids, parents, times, anc, cls, viol, stats, "pairs", rng)
        stats["cases_" + cls] = stats.get("cases_" + cls, 0) + 1
        stats["ladder_cases"] = stats.get("ladder_cases", 0) + 1
        nontriv.add("ladder:%d:%s:%s" % (n, "".join(str(len(p)) for p in parents), cls))
    seen, out = set(), []
    for v in viol:
        if v["sig"] not in seen:
            seen.add(v["sig"])
            out.append(v)
    return {"viol": out, "stats": stats, "nontrivial": sorted(nontriv), "evaluations": case["count"]}


def gen_random_dag(rng, n, style):
    parents = []
    for i in range(n):
        if i == 0:
            parents.append(())
            continue
        r = rng.random()
        if style == "linearish":
            k = 1 if r < 0.8 else 2 if r < 0.97 else 0
        elif style == "mergy":
            k = 1 if r < 0.4 else 2 if r < 0.85 else 3 if r < 0.95 else 0
        else:
            k = rng.choice([0, 1, 1, 2, 2, 3, 4])
        k = min(k, i)
        recent = list(range(max(0, i - 8), i))
        ps = set()
        while len(ps) < k:
            ps.add(rng.choice(recent) if rng.random() < 0.8 else rng.randrange(i))
        parents.append(tuple(sorted(ps, reverse=True)))
    return parents


def gen_clock(rng, parents, mode):
    n = len(parents)
    if mode == "strict":
        return [1000 + 10 * i + rng.randint(0, 5) for i in range(n)]
    if mode == "ties":
        return [1000 + 10 * (i // rng.choice([1, 2, 3])) for i in range(n)]
    if mode == "equal":
        return [1000] * n
    if mode == "reversed":
        return [100000 - 10 * i for i in range(n)]
    if mode == "future-one":
        t = [1000 + 10 * i for i in range(n)]
        t[rng.randrange(n)] += 10 ** 6
        return t
    t = [1000 + 10 * i for i in range(n)]
    for _ in range(max(1, n // 4)):
        t[rng.randrange(n)] += rng.choice([-500, -50, 50, 500])
    # a commit timestamp is an unsigned number in git's object format: several negative skews on one commit are shifted back into
    # range by a constant, which keeps every relative order
    m = min(t)
    if m < 0:
        t = [x - m for x in t]
    return t


CLOCK_MODES = ["strict", "strict", "ties", "equal", "reversed", "future-one", "skew"]


def run_random(case):
    rng = random.Random(case["seed"])
    n = case["n"]
    parents = gen_random_dag(rng, n, case["style"])
    times = gen_clock(rng, parents, case["clock"])
    anc = anc_sets(parents)
    cls = clock_class(parents, times)
    repo, ids = build_memrepo(parents, times)
    viol, stats = [], {}
    # sampled battery on a big DAG: restrict to a sample of nodes by wrapping check on a sub-universe of queries
    check_sampled(repo, ids, parents, times, anc, cls, viol, stats, rng)
    seen, out = set(), []
    for v in viol:
        if v["sig"] not in seen:
            seen.add(v["sig"])
            out.append(v)
    stats["cases_" + cls] = 1
    return {"viol": out, "stats": stats, "evaluations": 1,
            "nontrivial": ["rnd:%d:%s:%s:%d" % (n, case["style"], cls, sum(len(p) > 1 for p in parents))]}


def check_sampled(repo, ids, parents, times, anc, cls, viol, stats, rng, store=None, tag=""):
    from dulwich.graph import can_fast_forward, find_merge_base, find_octopus_base, independent
    from dulwich.walk import ORDER_DATE, ORDER_TOPO, Walker
    n = len(ids)
    idx = {s: i for i, s in enumerate(ids)}
    desc = {"parents": [list(p) for p in parents], "times": list(times)} if n <= 60 else {"n": n}

    def V(sig, **kw):
        viol.append(dict(sig=sig + "/" + cls + tag, dag=desc, **kw))

    for _ in range(40):
        a, b = rng.randrange(n), rng.randrange(n)
        stats["queries"] = stats.get("queries", 0) + 2
        want = maximal(anc[a] & anc[b], anc)
        got = [idx[x] for x in find_merge_base(repo, [ids[a], ids[b]])]
        if sorted(got) != sorted(want):
            g, w = set(got), set(want)
            kind = "extra-non-maximal" if g > w else "missing-lca" if g < w else "wrong-set"
            V("C13/merge-base/" + kind, q=[a, b], got=got, want=want)
        wff = bool((anc[b] >> a) & 1)
        if can_fast_forward(repo, ids[a], ids[b]) != wff:
            V("C13/can-ff/" + ("false-negative" if wff else "false-positive"), q=[a, b])
    for _ in range(10):
        q = rng.sample(range(n), min(n, rng.randint(2, 4)))
        stats["queries"] = stats.get("queries", 0) + 2
        want = [x for x in q if not any(y != x and (anc[y] >> x) & 1 for y in q)]
        got = [idx[x] for x in independent(repo, [ids[x] for x in q])]
        if got != want:
            V("C13/independent/" + ("kept-ancestor" if set(got) > set(want) else "dropped-independent"), q=q, got=got, want=want)
        m = anc[q[0]]
        for x in q[1:]:
            m &= anc[x]
        want = maximal(m, anc)
        got = sorted(set(idx[x] for x in find_octopus_base(repo, [ids[x] for x in q])))
        if got != sorted(want):
            g, w = set(got), set(want)
            V("C13/octopus-base/" + ("extra-non-maximal" if g > w else "missing-lca" if g < w else "wrong-set"), q=q, got=got, want=want)
    st = store or repo.object_store
    for _ in range(8):
        inc = rng.sample(range(n), rng.randint(1, 3))
        reach = 0
        for i in inc:
            reach |= anc[i]
        order = rng.choice([ORDER_DATE, ORDER_TOPO])
        reverse = rng.random() < 0.3
        stats["walks"] = stats.get("walks", 0) + 2
        got = [idx[e.commit.id] for e in Walker(st, [ids[i] for i in inc], order=order, reverse=reverse)]
        walk_verdict(got, reach, parents, times, order, reverse, cls, V, dict(inc=inc, order=order, reverse=reverse), anc)
        exc = rng.sample(range(n), rng.randint(1, 2))
        em = 0
        for j in exc:
            em |= anc[j]
        got = [idx[e.commit.id] for e in Walker(st, [ids[i] for i in inc], exclude=[ids[j] for j in exc], order=order)]
        q = dict(inc=inc, exc=exc, order=order)
        if len(got) != len(set(got)):
            V("C13/walk-exclude/duplicate", **q)
        elif cls == "skewed":
            if any(not (reach >> x) & 1 for x in got):
                V("C13/walk-exclude/not-reachable-from-include", **q)
        else:
            want = reach & ~em
            gm = sum(1 << x for x in got)
            if gm != want:
                V("C13/walk-exclude/" + ("missed-commit" if want & ~gm else "yielded-excluded"),
                  got=got if n <= 60 else len(got), want=bits(want) if n <= 60 else None, **q)
            elif order == ORDER_TOPO:
                pos = {x: k for k, x in enumerate(got)}
                if any(p in pos and pos[p] < pos[x] for x in got for p in parents[x]):
                    V("C13/walk-exclude/parent-before-child", **q)
        if cls != "skewed":
            ts = sorted(set(times))
            since = rng.choice(ts)
            got = [idx[e.commit.id] for e in Walker(st, [ids[i] for i in inc], since=since)]
            want = [x for x in bits(reach) if times[x] >= since]
            if sorted(got) != sorted(want):
                V("C13/walk-since-until/" + ("missed-commit" if set(want) - set(got) else "extra-or-duplicate"), inc=inc, since=since)


_scratch = None


NOGRAPH = ["-c", "core.commitGraph=false"]     # the reference must not read the acceleration file dulwich may have written


def run_git(case):
    """Materialise the DAG with git fast-import; compare git's answers with the reference and with dulwich
    running on that on-disk repository (with and without a commit-graph)."""
    global _scratch
    from dulwich.repo import Repo
    if _scratch is None:
        _scratch = core.Scratch("c13-")
    rng = random.Random(case["seed"])
    n = case["n"]
    parents = gen_random_dag(rng, n, case["style"])
    times = gen_clock(rng, parents, case["clock"])
    anc = anc_sets(parents)
    cls = clock_class(parents, times)
    d = _scratch.sub("g%d" % rng.randrange(10 ** 9))
    viol, stats = [], {"git_repos": 1}
    try:
        core.git(["init", "-q", "--bare", d])
        s = []
        for i, ps in enumerate(parents):
            s.append("commit refs/heads/b%d\nmark :%d\ncommitter C <c@d> %d +0000\ndata 2\nc\n" % (i, i + 1, times[i]))
            if ps:
                s.append("from :%d\n" % (ps[0] + 1))
                for p in ps[1:]:
                    s.append("merge :%d\n" % (p + 1))
            else:
                s.append("deleteall\n")
            s.append("M 644 inline f\ndata %d\n%s\n" % (len(str(i)), i))
        core.git(["fast-import", "--quiet", "--export-marks=" + os.path.join(d, "marks")], cwd=d, input="".join(s).encode())
        ids = [None] * n
        for line in open(os.path.join(d, "marks")):
            m, sha = line.split()
            ids[int(m[1:]) - 1] = sha.encode()
        idx = {s_: i for i, s_ in enumerate(ids)}
        if case.get("commit_graph") == "git":
            core.git(["commit-graph", "write", "--reachable"], cwd=d)
        repo = Repo(d)
        if case.get("commit_graph") == "dulwich":
            repo.object_store.write_commit_graph([ids[i] for i in range(n)], reachable=True)
            repo.close()
            repo = Repo(d)
        desc = {"parents": [list(p) for p in parents], "times": times}

        cgtag = "/disk-cg=%s%s" % (case.get("commit_graph"), "+octopus" if any(len(p) > 2 for p in parents) else "")

        def V(sig, **kw):
            viol.append(dict(sig=sig + "/" + cls + cgtag, dag=desc, cg=case.get("commit_graph"), **kw))

        # git vs reference (validates the oracle) and dulwich-on-disk vs reference
        for _ in range(case.get("q", 12)):
            a, b = rng.randrange(n), rng.randrange(n)
            want = maximal(anc[a] & anc[b], anc)
            r = core.git(NOGRAPH + ["merge-base", "--all", ids[a].decode(), ids[b].decode()], cwd=d, check=False)
            g = sorted(idx[x] for x in r.stdout.split())
            stats["git_queries"] = stats.get("git_queries", 0) + 1
            if g != sorted(want):
                V("C13/ORACLE-DISAGREES-WITH-GIT/merge-base", q=[a, b], git=g, ref=want)
            r = core.git(NOGRAPH + ["merge-base", "--is-ancestor", ids[a].decode(), ids[b].decode()], cwd=d, check=False)
            if (r.returncode == 0) != bool((anc[b] >> a) & 1):
                V("C13/ORACLE-DISAGREES-WITH-GIT/is-ancestor", q=[a, b])
        q = rng.sample(range(n), min(n, 3))
        r = core.git(NOGRAPH + ["merge-base", "--independent"] + [ids[x].decode() for x in q], cwd=d, check=False)
        want = [x for x in q if not any(y != x and (anc[y] >> x) & 1 for y in q)]
        if sorted(idx[x] for x in r.stdout.split()) != sorted(want):
            V("C13/ORACLE-DISAGREES-WITH-GIT/independent", q=q)
        r = core.git(NOGRAPH + ["merge-base", "--octopus", "--all"] + [ids[x].decode() for x in q], cwd=d, check=False)
        m = anc[q[0]]
        for x in q[1:]:
            m &= anc[x]
        if sorted(idx[x] for x in r.stdout.split()) != sorted(maximal(m, anc)):
            V("C13/ORACLE-DISAGREES-WITH-GIT/octopus", q=q, git=sorted(idx[x] for x in r.stdout.split()), ref=maximal(m, anc))
        r = core.git(NOGRAPH + ["merge-base", "--all"] + [ids[x].decode() for x in q], cwd=d, check=False)
        if len(q) == 3 and sorted(idx[x] for x in r.stdout.split()) != sorted(maximal(anc[q[0]] & (anc[q[1]] | anc[q[2]]), anc)):
            V("C13/ORACLE-DISAGREES-WITH-GIT/merge-base-many", q=q)
        # rev-list
        inc = rng.sample(range(n), rng.randint(1, 2))
        exc = rng.sample(range(n), 1)
        reach = 0
        for i in inc:
            reach |= anc[i]
        r = core.git(NOGRAPH + ["rev-list", "--topo-order"] + [ids[i].decode() for i in inc] + ["^" + ids[exc[0]].decode()], cwd=d)
        g = [idx[x] for x in r.stdout.split()]
        if sorted(g) != bits(reach & ~anc[exc[0]]):
            if cls == "skewed":
                # C git's own revision limiting is only a heuristic once commit dates run backwards (limit_list's "slop"): it is no
                # reference there, and the property itself exempts walks with excludes under non-monotone clocks
                stats["git_rev_list_exclude_inexact_under_skew"] = stats.get("git_rev_list_exclude_inexact_under_skew", 0) + 1
            else:
                V("C13/ORACLE-DISAGREES-WITH-GIT/rev-list-exclude", inc=inc, exc=exc)
        stats["git_queries"] = stats.get("git_queries", 0) + 5
        if cls == "strict" and len(set(times)) == n:
            from dulwich.walk import Walker
            r = core.git(NOGRAPH + ["rev-list", "--date-order"] + [ids[i].decode() for i in inc], cwd=d)
            g = [idx[x] for x in r.stdout.split()]
            got = [idx[e.commit.id] for e in repo.get_walker(include=[ids[i] for i in inc])]
            if got != g:
                V("C13/walk/differs-from-git-rev-list-date-order", inc=inc, got=got, git=g)
        # dulwich on the on-disk repo (parents provider / commit-graph path)
        check_sampled(repo, ids, parents, times, anc, cls, viol, stats, rng, store=repo.object_store,
                      tag=cgtag)
        repo.close()
    finally:
        import shutil
        shutil.rmtree(d, ignore_errors=True)
    seen, out = set(), []
    for v in viol:
        if v["sig"] not in seen:
            seen.add(v["sig"])
            out.append(v)
    return {"viol": out, "stats": stats, "evaluations": 1,
            "nontrivial": ["git:%d:%s:%s:%s" % (n, case["style"], cls, case.get("commit_graph"))]}


def run_single(case):
    """Replay helper: one explicit (parents, times)."""
    parents = [tuple(p) for p in case["parents"]]
    times = case["times"]
    anc = anc_sets(parents)
    cls = clock_class(parents, times)
    repo, ids = build_memrepo(parents, times)
    viol, stats = [], {}
    check_repo(repo, ids, parents, times, anc, cls, viol, stats, "full", random.Random(0))
    return {"viol": viol[:20], "stats": stats, "evaluations": 1}


def worker_exit():
    if _scratch:
        _scratch.cleanup()


def run_case(case):
    return {"exh": run_exh, "random": run_random, "git": run_git, "single": run_single, "ladder": run_ladder}[case["kind"]](case)


def main(ctx):
    cases = []
    rng = ctx.sub_rng("gen")
    # exhaustive n <= 4: all DAGs x all weak orders, full battery
    for n in (1, 2, 3, 4):
        nd = 1
        for i in range(n):
            nd *= 2 ** i
        step = max(1, nd // 32)
        for lo in range(0, nd, step):
            cases.append({"kind": "exh", "n": n, "range": [lo, min(nd, lo + step)], "seed": "%d/e/%d/%d" % (ctx.seed, n, lo)})
    if ctx.thorough:
        # n = 5: all 1024 DAGs x all 541 weak orders, pair queries; full battery on a clock sample
        for lo in range(0, 1024, 4):
            cases.append({"kind": "exh", "n": 5, "range": [lo, lo + 4], "level": "pairs", "seed": "%d/e5/%d" % (ctx.seed, lo)})
        for lo in range(0, 1024, 16):
            cases.append({"kind": "exh", "n": 5, "range": [lo, lo + 16], "clock_sample": 12, "seed": "%d/e5f/%d" % (ctx.seed, lo)})
    else:
        for lo in range(0, 1024, 32):
            cases.append({"kind": "exh", "n": 5, "range": [lo, lo + 32], "level": "pairs", "clock_sample": 10,
                          "seed": "%d/e5/%d" % (ctx.seed, lo)})
    # n = 6 with <= 2 parents is covered by random sampling below (styles) plus:
    for i in range(ctx.budget(400, 6000)):
        cases.append({"kind": "random", "n": rng.choice([6, 6, 7, 8, 10, 15, 30, 60, 150, 300]), "style": rng.choice(["linearish", "mergy", "wild"]),
                      "clock": rng.choice(CLOCK_MODES), "seed": "%d/r/%d" % (ctx.seed, i)})
    for i in range(ctx.budget(48, 640)):
        cases.append({"kind": "ladder", "count": 100, "seed": "%d/l/%d" % (ctx.seed, i)})
    for i in range(ctx.budget(120, 1500)):
        cases.append({"kind": "git", "n": rng.choice([5, 8, 12, 25, 60]), "style": rng.choice(["linearish", "mergy", "wild"]),
                      "clock": rng.choice(CLOCK_MODES), "commit_graph": rng.choice([None, "git", "dulwich"]),
                      "seed": "%d/g/%d" % (ctx.seed, i)})
    ctx.rule = ("exh: ALL DAGs on n<=4 labelled nodes (parents subset of earlier nodes) x ALL weak orders of timestamps x all "
                "query pairs/triples/include sets (n=5: all DAGs, %s); random DAGs 6..300 commits with criss-cross/octopus/"
                "multi-root and 7 clock modes; ladder DAGs (chain + shortcut merges, 6-14 commits) x fully permuted/tied/reversed clocks x all pairs; git: fast-import'ed copies with/without commit-graph. non-trivial = distinct DAG "
                "(exh) or distinct (size, style, clock class, #merges) (random)." % (
                    "all 541 weak orders for pair queries" if ctx.thorough else "10 sampled clocks + 3 extreme ones, pair queries"))
    ctx.explanation = "exhaustive sub-space: n<=4 DAGs x 75 weak orders x full battery" + (
        "; n=5 DAGs x 541 weak orders x all pairs" if ctx.thorough else "")
    ctx.assumptions = ["walks with excludes under non-monotone clocks are only required duplicate-free and within reachable(include)",
                       "since/until compared with the definitional filter under monotone clocks only",
                       "reference = ancestor bitsets, validated against git merge-base/rev-list on every run"]

    def on_result(case, out):
        if out["status"] != "ok":
            if out["status"] == "timeout":
                ctx.inconc("timeout " + case["kind"])
            else:
                ctx.violation("C13/%s/worker-%s/%s" % (case["kind"], out["status"], out.get("exc")), case, out)
            return
        res = out["result"]
        ctx.merge(res)
        for v in res.get("viol", []):
            c = case
            if case["kind"] != "git" and "dag" in v and "parents" in v["dag"]:
                c = {"kind": "single", "parents": v["dag"]["parents"], "times": v["dag"]["times"]}
            ctx.violation(v["sig"], c, v)
        ctx.sample(case, case["kind"])

    pool.pmap("vt.checks.c13", cases, timeout=1200, on_result=on_result)
    if not ctx.stats["git_queries"]:
        return "no git comparison ran"
    if ctx.stats["cases_strict"] == 0 or ctx.stats["cases_skewed"] == 0:
        return "clock classes not all exercised"
    return None
