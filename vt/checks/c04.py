"""C04 — corrupt or hostile input is contained; failed ingestion leaves no trace.

Every case runs in a crash-isolated worker (vt.pool) with an address-space limit and a CPU budget, so the
observed outcome classes are: value / ordinary exception / BaseException (panic) / MemoryError-RecursionError /
process death / CPU blow-up / hang.  Only the first two are allowed.  Post-conditions:
  success  every id that became visible hashes to its name (independent hashlib digest of header+bytes)
  failure  set(store), the bytes of every pre-existing object and the pack file set are unchanged, also for a
           freshly opened store
Mutations of small valid seeds are enumerated exhaustively: every byte position x {^01, ^80, =00, =ff}
(thorough: all 8 single-bit flips), every truncation length, appended tails, plus grammar-aware attacks.
Ingestion paths: add_pack()+commit, add_thin_pack (hostile chunking), add_pack_data via PackInflater,
PackStreamReader, ReceivePackHandler, disk and memory stores; damaged installed files: loose objects, idx,
index, packed-refs, commit-graph, multi-pack-index.
"""
import hashlib
import io
import os
import random
import resource
import shutil
import struct
import time
import zlib

from vt import core, pool
from vt.ref import packfmt

LEVEL = "fault_enumeration"
_st = {}
CPU_MIN = 2.0


def oid(tname, body):
    return hashlib.sha1(tname + b" %d\0" % len(body) + body).hexdigest().encode()


def worker_init():
    sc = _st["scratch"] = core.Scratch("c04-")
    d = sc.sub("base")
    core.git(["init", "-q", d])
    core.git(["config", "gc.auto", "0"], cwd=d)
    core.git(["config", "pack.threads", "1"], cwd=d)
    for i in range(3):
        with open(os.path.join(d, "f.txt"), "a") as f:
            f.write("".join("base line %d %d\n" % (i, j) for j in range(60)))
        core.git(["add", "-A"], cwd=d)
        core.git(["commit", "-q", "-m", "base %d" % i], cwd=d)
    core.git(["repack", "-adq"], cwd=d)
    core.git(["pack-refs", "--all"], cwd=d)
    _st["base"] = d
    _st["base_head"] = core.git(["rev-parse", "HEAD"], cwd=d).stdout.strip()
    # source with newer commits -> seed packs relative to base
    s = sc.sub("src")
    shutil.rmtree(s)
    shutil.copytree(d, s, symlinks=True)
    for i in range(3):
        with open(os.path.join(s, "f.txt"), "a") as f:
            f.write("new line %d\n" % i)
        with open(os.path.join(s, "g%d.txt" % i), "w") as f:
            f.write("file %d\n" % i * 30)
        core.git(["add", "-A"], cwd=s)
        core.git(["commit", "-q", "-m", "new %d" % i], cwd=s)
    core.git(["tag", "-a", "-m", "t", "v1", "HEAD"], cwd=s)
    _st["src"] = s
    revs = b"HEAD\nv1\n^" + _st["base_head"] + b"\n"
    seeds = {}
    seeds["git-full"] = core.git(["pack-objects", "--stdout", "--revs", "-q", "--no-delta-base-offset", "--window=0"], cwd=s, input=revs).stdout
    seeds["git-ofs"] = core.git(["pack-objects", "--stdout", "--revs", "-q", "--delta-base-offset", "--depth=10"], cwd=s, input=revs).stdout
    seeds["git-ref"] = core.git(["pack-objects", "--stdout", "--revs", "-q", "--depth=10"], cwd=s, input=revs).stdout
    seeds["git-thin"] = core.git(["pack-objects", "--stdout", "--revs", "-q", "--thin", "--delta-base-offset"], cwd=s, input=revs).stdout
    # dulwich-written pack
    from dulwich.object_format import SHA1
    from dulwich.pack import write_pack_objects
    from dulwich.repo import Repo
    r = Repo(s)
    try:
        ids = [l.split()[0] for l in core.git(["rev-list", "--objects", "--stdin"], cwd=s, input=revs).stdout.splitlines()]
        buf = io.BytesIO()
        write_pack_objects(buf.write, [r[i] for i in ids], SHA1, deltify=True)
        seeds["dulwich-deltified"] = buf.getvalue()
    finally:
        r.close()
    _st["seeds"] = seeds
    _st["seed_ids"] = set(ids)
    _st["base_objects"] = snapshot_store(d)
    # timing of the unmutated seeds per path
    _st["median_cpu"] = {}


def worker_exit():
    if "scratch" in _st:
        _st["scratch"].cleanup()


def snapshot_store(d):
    """{id: (type, sha1(bytes))} via git + pack file list"""
    objs = {}
    lst = core.git(["cat-file", "--batch-all-objects", "--batch-check"], cwd=d, check=False).stdout.splitlines()
    for l in lst:
        p = l.split()
        objs[p[0]] = p[1]
    pd = os.path.join(d, ".git", "objects", "pack")
    packs = sorted(f for f in os.listdir(pd) if f.endswith((".pack", ".idx", ".bitmap", ".rev")))
    return {"objects": objs, "packfiles": packs}


def dul_view(d):
    """what a freshly opened dulwich store shows: set of ids"""
    from dulwich.repo import Repo
    r = Repo(d)
    try:
        return set(r.object_store)
    finally:
        r.close()


def fresh_store():
    d = os.path.join(_st["scratch"].path, "w%d" % _st.setdefault("n", 0))
    _st["n"] += 1
    shutil.copytree(_st["base"], d, symlinks=True)
    return d


class Chunker:
    def __init__(self, data, rng, mode):
        self.f = io.BytesIO(data)
        self.rng = rng
        self.mode = mode
        self.calls = 0

    def read_all(self, n):
        self.calls += 1
        if self.calls > 2000000:
            raise RuntimeError("reader: too many read calls")
        return self.f.read(n)

    def read_some(self, n):
        self.calls += 1
        if self.calls > 2000000:
            raise RuntimeError("reader: too many read calls")
        if self.mode == "one":
            return self.f.read(1)
        if self.mode == "rand":
            return self.f.read(self.rng.randint(1, max(1, min(n, 7))))
        return self.f.read(n)


def ingest(path, d, data, rng):
    """Run one ingestion path. Returns ('ok'|'raised', detail)."""
    from dulwich.object_format import SHA1
    from dulwich.object_store import MemoryObjectStore
    from dulwich.pack import PackData, PackInflater, PackStreamReader
    from dulwich.repo import Repo
    if path == "stream-reader":
        ch = Chunker(data, rng, rng.choice(["all", "one", "rand"]))
        rd = PackStreamReader(hashlib.sha1, ch.read_all, ch.read_some)
        n = 0
        for o in rd.read_objects(compute_crc32=True):
            n += 1
        return n
    if path == "memory-add_thin_pack":
        st = MemoryObjectStore()
        # give it the base objects (thin bases)
        r = Repo(d)
        try:
            for i in list(r.object_store):
                st.add_object(r.object_store[i])
        finally:
            r.close()
        before = set(st)
        ch = Chunker(data, rng, rng.choice(["all", "rand"]))
        try:
            st.add_thin_pack(ch.read_all, ch.read_some)
        except Exception:
            if set(st) != before:
                raise AssertionError("C04-POSTCONDITION memory store changed by a failed ingestion: %d new ids" % len(set(st) - before))
            raise
        for i in set(st) - before:
            o = st[i]
            if oid(o.type_name, o.as_raw_string()) != i:
                raise AssertionError("C04-POSTCONDITION memory store object does not hash to its name")
        return len(set(st) - before)
    r = Repo(d)
    try:
        st = r.object_store
        if path == "add_thin_pack":
            ch = Chunker(data, rng, rng.choice(["all", "one", "rand"]))
            st.add_thin_pack(ch.read_all, ch.read_some)
        elif path == "add_pack+commit":
            f, commit, abort = st.add_pack()
            try:
                f.write(data)
            except BaseException:
                abort()
                raise
            commit()
        elif path == "add_pack_data":
            # a source pack whose index is intact (built by git from the undamaged seed) but whose data file is damaged: the ids the
            # unpacked objects carry come from the index, the bytes from the damaged file
            from dulwich.pack import Pack
            sd = os.path.join(_st["scratch"].path, "srcpack-%d" % _st["n"])
            os.makedirs(sd)
            try:
                base = os.path.join(sd, "pack-" + "0" * 40)
                with open(base + ".idx", "wb") as fh:
                    fh.write(_st["cur_idx"])
                with open(base + ".pack", "wb") as fh:
                    fh.write(data)
                pk = Pack(base, object_format=SHA1)
                try:
                    st.add_pack_data(len(pk), pk.iter_unpacked())
                finally:
                    pk.close()
            finally:
                shutil.rmtree(sd, ignore_errors=True)
        elif path == "receive-pack":
            from dulwich.protocol import Protocol, pkt_line
            from dulwich.server import DictBackend, ReceivePackHandler
            new = _st["src_head"]
            req = pkt_line(_st["base_head"] + b" " + new + b" refs/heads/master\0report-status\n") + pkt_line(None) + data
            out = io.BytesIO()
            ReceivePackHandler(DictBackend({b"/": r}), [b"/"], Protocol(io.BytesIO(req).read, out.write)).handle()
            return out.getvalue()
        else:
            raise ValueError(path)
    finally:
        r.close()
    return None


class _ZMon:
    """zlib proxy for dulwich.pack: counts the bytes every decompressobj produced (monitor for over-inflation)."""

    def __init__(self):
        self.max_produced = 0
        self.n_objs = 0

    def __getattr__(self, k):
        return getattr(zlib, k)

    def decompressobj(self, *a, **kw):
        mon = self
        real = zlib.decompressobj(*a, **kw)
        mon.n_objs += 1

        class D:
            produced = 0

            def decompress(self, data, max_length=0):
                out = real.decompress(data, max_length)
                self.produced += len(out)
                if self.produced > mon.max_produced:
                    mon.max_produced = self.produced
                return out

            def flush(self, *a):
                out = real.flush(*a)
                self.produced += len(out)
                if self.produced > mon.max_produced:
                    mon.max_produced = self.produced
                return out

            def __getattr__(self, k):
                return getattr(real, k)
        return D()


def install_zlib_monitor():
    if "zmon" not in _st:
        import dulwich.pack
        _st["zmon"] = _ZMon()
        dulwich.pack.zlib = _st["zmon"]
    return _st["zmon"]


def seed_idx(sn):
    c = _st.setdefault("idx_cache", {})
    if sn not in c:
        p = os.path.join(_st["scratch"].path, "ip-%s.pack" % sn.replace(":", "_"))
        with open(p, "wb") as fh:
            fh.write(_st["seeds"][sn])
        r = core.git(["index-pack", p], cwd=_st["base"], check=False)
        c[sn] = open(p[:-5] + ".idx", "rb").read() if r.returncode == 0 else b""
    return c[sn]


def classify_mutation(seed, pos):
    n = len(seed)
    if pos < 12:
        return "header"
    if pos >= n - 20:
        return "trailer"
    return "body"


def run_pack(case):
    if "seeds" not in _st:
        worker_init()
    if "src_head" not in _st:
        _st["src_head"] = core.git(["rev-parse", "HEAD"], cwd=_st["src"]).stdout.strip()
    rng = random.Random(case["seed"])
    seed = _st["seeds"][case["seedname"]]
    path = case["path"]
    viol, stats = [], {}
    base_ids = _st.setdefault("base_dul_view", None)
    if base_ids is None:
        base_ids = _st["base_dul_view"] = dul_view(_st["base"])
    _st["cur_idx"] = seed_idx(case["seedname"]) if path == "add_pack_data" else None
    install_zlib_monitor()
    # unmutated timing
    key = (case["seedname"], path)
    if case["seedname"].startswith("g:"):
        _st["median_cpu"][key] = (0.025, True)      # hostile from the start: absolute budget of 5 CPU seconds
    if key not in _st["median_cpu"]:
        d = fresh_store()
        t0 = time.process_time()
        try:
            ingest(path, d, seed, rng)
            ok0 = True
        except Exception as e:
            ok0 = "%s: %s" % (type(e).__name__, str(e)[:100])
        _st["median_cpu"][key] = (time.process_time() - t0, ok0)
        shutil.rmtree(d, ignore_errors=True)
    base_cpu, ok0 = _st["median_cpu"][key]
    if ok0 is not True and case["seedname"] != "git-thin" and not (path in ("add_pack+commit", "add_pack_data", "stream-reader") and False):
        stats["seed_rejected_unmutated:%s/%s" % key] = 1
    budget = max(CPU_MIN, 200 * base_cpu)
    for mut in case["mutations"]:
        if mut[0] in ("xor", "set", "trunc") and mut[1] >= len(seed):
            continue
        if mut[0] == "splice" and mut[2] > len(seed):
            continue
        data = apply_mutation(seed, mut)
        if data == seed and mut[0] != "noop":
            continue
        d = fresh_store() if path not in ("stream-reader",) else _st["base"]
        t0 = time.process_time()
        outcome = "ok"
        detail = None
        _st["zmon"].max_produced = 0
        try:
            res = ingest(path, d, data, rng)
        except (MemoryError, RecursionError) as e:
            outcome = "resource:" + type(e).__name__
        except AssertionError as e:
            outcome = "postcondition" if "C04-POSTCONDITION" in str(e) else "ordinary:AssertionError"
            detail = str(e)[:150]
        except Exception as e:
            outcome = "ordinary:" + type(e).__name__
            detail = str(e)[:100]
        except BaseException as e:
            outcome = "base:" + type(e).__name__
            detail = str(e)[:150]
        cpu = time.process_time() - t0
        stats["cases"] = stats.get("cases", 0) + 1
        stats["outcome_" + outcome.split(":")[0]] = stats.get("outcome_" + outcome.split(":")[0], 0) + 1
        mclass = mut[0] + ("@" + classify_mutation(seed, mut[1]) if mut[0] in ("xor", "set") else "")
        tag = "%s/%s/%s" % (path, case["seedname"], mclass)
        if outcome.startswith(("resource", "base")):
            viol.append({"sig": "C04/%s/%s" % (tag, outcome), "mut": mut, "detail": detail})
        elif outcome == "postcondition":
            viol.append({"sig": "C04/%s/failed-ingestion-left-objects-visible" % tag, "mut": mut, "detail": detail})
        stats["zlib_decompressobjs_watched"] = stats.get("zlib_decompressobjs_watched", 0) + _st["zmon"].n_objs
        _st["zmon"].n_objs = 0
        declared = case.get("declared_max")
        if declared is not None and _st["zmon"].max_produced > declared + 65536:
            viol.append({"sig": "C04/%s/inflated-far-more-than-the-declared-size" % tag, "mut": mut, "declared_max": declared,
                         "inflated_by_one_stream": _st["zmon"].max_produced})
        if cpu > budget:
            viol.append({"sig": "C04/%s/cpu-time-%dx-the-unmutated-input" % (tag, int(cpu / max(base_cpu, 1e-3)) // 100 * 100), "cpu": cpu, "base": base_cpu, "mut": mut})
        if path in ("add_thin_pack", "add_pack+commit", "add_pack_data", "receive-pack") and not outcome.startswith(("resource", "base")):
            failed = outcome != "ok"
            if path == "receive-pack" and outcome == "ok":
                failed = b"unpack ok" not in (res or b"")
                if b"unpack" not in (res or b""):
                    viol.append({"sig": "C04/%s/receive-pack-did-not-report-unpack-status" % tag, "mut": mut})
            try:
                view = dul_view(d)
            except Exception as e:
                viol.append({"sig": "C04/%s/store-unusable-after-ingestion-%s" % (tag, type(e).__name__), "mut": mut, "msg": str(e)[:150], "failed": failed})
                view = None
            if view is not None:
                new = view - base_ids
                gone = base_ids - view
                if gone:
                    viol.append({"sig": "C04/%s/pre-existing-objects-vanished" % tag, "mut": mut})
                if failed and new:
                    viol.append({"sig": "C04/%s/failed-ingestion-left-objects-visible" % tag, "mut": mut, "n_new": len(new), "outcome": outcome, "detail": detail})
                if new and not failed:
                    stats["accepted_with_new_objects_all_rehashed"] = stats.get("accepted_with_new_objects_all_rehashed", 0) + 1
                if failed:
                    stats["rejected_store_compared_unchanged"] = stats.get("rejected_store_compared_unchanged", 0) + 1
                if new:
                    # success post-condition: everything visible hashes to its name (through a fresh repo)
                    from dulwich.repo import Repo
                    r = Repo(d)
                    try:
                        for i in new:
                            try:
                                o = r.object_store[i]
                                if oid(o.type_name, o.as_raw_string()) != i:
                                    viol.append({"sig": "C04/%s/visible-object-does-not-hash-to-its-name" % tag, "mut": mut})
                                    break
                            except Exception as e:
                                viol.append({"sig": "C04/%s/visible-object-unreadable-%s" % (tag, type(e).__name__), "mut": mut, "failed": failed})
                                break
                    finally:
                        r.close()
                if failed:
                    pd = os.path.join(d, ".git", "objects", "pack")
                    packs = sorted(f for f in os.listdir(pd) if f.startswith("pack-") and f.endswith((".pack", ".idx")))
                    if packs != [p for p in _st["base_objects"]["packfiles"] if p.endswith((".pack", ".idx"))]:
                        viol.append({"sig": "C04/%s/failed-ingestion-left-pack-files-installed" % tag, "mut": mut, "packs": packs[:6]})
                    left = [f for f in os.listdir(os.path.join(d, ".git", "objects")) if f.startswith("tmp")] + [f for f in os.listdir(pd) if not f.startswith("pack-")]
                    if left:
                        stats["leftover_tmp_files"] = stats.get("leftover_tmp_files", 0) + len(left)
                    if path == "receive-pack":
                        head = core.git(["rev-parse", "refs/heads/master"], cwd=d, check=False).stdout.strip()
                        if head != _st["base_head"]:
                            viol.append({"sig": "C04/%s/ref-updated-although-unpack-failed" % tag, "mut": mut})
        if d != _st["base"]:
            shutil.rmtree(d, ignore_errors=True)
    seen, out = set(), []
    for v in viol:
        if v["sig"] not in seen:
            seen.add(v["sig"])
            out.append(v)
    return {"viol": out, "stats": stats, "evaluations": stats.get("cases", 0),
            "nontrivial": ["%s:%s:%s" % (path, case["seedname"], m[0] + str(m[1] if len(m) > 1 else "")) for m in case["mutations"][:400]]}


def apply_mutation(seed, mut):
    k = mut[0]
    if k == "noop":
        return seed
    if k == "xor":
        b = bytearray(seed)
        b[mut[1]] ^= mut[2]
        return bytes(b)
    if k == "set":
        b = bytearray(seed)
        b[mut[1]] = mut[2]
        return bytes(b)
    if k == "trunc":
        return seed[:mut[1]]
    if k == "tail":
        return seed + bytes.fromhex(mut[1])
    if k == "splice":
        return seed[:mut[1]] + seed[mut[2]:]
    if k == "raw":
        return bytes.fromhex(mut[1])
    raise ValueError(k)


# ------------------------------------------------------------------------------ grammar-aware packs
def grammar_packs():
    """hostile packs built from scratch. -> list of (name, bytes)"""
    W = packfmt
    out = []
    blob = b"hello grammar\n" * 5
    bid = bytes.fromhex(oid(b"blob", blob).decode())

    def fin(body):
        return body + hashlib.sha1(body).digest()

    def hdr(n):
        return b"PACK" + struct.pack(">LL", 2, n)
    good = hdr(1) + W.entry_header(3, len(blob)) + zlib.compress(blob)
    out.append(("count+1", fin(hdr(2) + good[12:])))
    out.append(("count-1-with-extra-object", fin(hdr(1) + good[12:] + W.entry_header(3, 3) + zlib.compress(b"abc"))))
    out.append(("count-huge", fin(hdr(0xFFFFFFFF) + good[12:])))
    out.append(("count-zero-with-object", fin(hdr(0) + good[12:])))
    out.append(("wrong-trailer", good + b"\x00" * 20))
    out.append(("version-3", fin(b"PACK" + struct.pack(">LL", 3, 1) + good[12:])))
    out.append(("version-9", fin(b"PACK" + struct.pack(">LL", 9, 1) + good[12:])))
    out.append(("bad-magic", fin(b"PAKC" + good[4:])))
    out.append(("size-header-too-small", fin(hdr(1) + W.entry_header(3, len(blob) - 3) + zlib.compress(blob))))
    out.append(("size-header-too-big", fin(hdr(1) + W.entry_header(3, len(blob) + 3) + zlib.compress(blob))))
    out.append(("size-header-2^64", fin(hdr(1) + W.entry_header(3, 2 ** 64) + zlib.compress(blob))))
    out.append(("zlib-trailing-garbage", fin(hdr(1) + W.entry_header(3, len(blob)) + zlib.compress(blob) + b"GARBAGE")))
    out.append(("type-0", fin(hdr(1) + bytes([(0 << 4) | 5]) + zlib.compress(b"12345"))))
    out.append(("type-5", fin(hdr(1) + bytes([(5 << 4) | 5]) + zlib.compress(b"12345"))))
    delta = W.encode_varint_size(len(blob)) + W.encode_varint_size(5) + b"\x05abcde"
    out.append(("ofs-delta-offset-0", fin(hdr(2) + good[12:] + W.entry_header(6, len(delta)) + b"\x00" + zlib.compress(delta))))
    out.append(("ofs-delta-beyond-start", fin(hdr(2) + good[12:] + W.entry_header(6, len(delta)) + W.ofs_encode(100000) + zlib.compress(delta))))
    out.append(("ofs-delta-into-middle-of-entry", fin(hdr(2) + good[12:] + W.entry_header(6, len(delta)) + W.ofs_encode(len(good) - 12 - 3) + zlib.compress(delta))))
    out.append(("ofs-delta-forward-first-entry", fin(hdr(2) + W.entry_header(6, len(delta)) + W.ofs_encode(1) + zlib.compress(delta) + good[12:])))
    d_self = W.encode_varint_size(5) + W.encode_varint_size(5) + b"\x05abcde"
    self_id = bytes.fromhex(oid(b"blob", b"abcde").decode())
    out.append(("ref-delta-to-self", fin(hdr(1) + W.entry_header(7, len(d_self)) + self_id + zlib.compress(d_self))))
    out.append(("ref-delta-missing-base", fin(hdr(1) + W.entry_header(7, len(delta)) + b"\x77" * 20 + zlib.compress(delta))))
    # two-cycle: A = delta(base B) producing 'aaaaa', B = delta(base A) producing 'bbbbb'
    da = W.encode_varint_size(5) + W.encode_varint_size(5) + b"\x05aaaaa"
    db = W.encode_varint_size(5) + W.encode_varint_size(5) + b"\x05bbbbb"
    ida = bytes.fromhex(oid(b"blob", b"aaaaa").decode())
    idb = bytes.fromhex(oid(b"blob", b"bbbbb").decode())
    out.append(("ref-delta-two-cycle", fin(hdr(2) + W.entry_header(7, len(da)) + idb + zlib.compress(da) + W.entry_header(7, len(db)) + ida + zlib.compress(db))))
    out.append(("delta-empty-payload", fin(hdr(2) + good[12:] + W.entry_header(6, 0) + W.ofs_encode(len(good) - 12) + zlib.compress(b""))))
    for t, nm in ((1, "commit"), (2, "tree"), (4, "tag")):
        out.append(("zero-payload-%s" % nm, fin(hdr(1) + W.entry_header(t, 0) + zlib.compress(b""))))
        out.append(("garbage-%s" % nm, fin(hdr(1) + W.entry_header(t, 9) + zlib.compress(b"not a " + nm.encode()[:3]))))
        out.append(("headerless-%s" % nm, fin(hdr(1) + W.entry_header(t, 5) + zlib.compress({1: b"tree\n", 2: b"1 a\0x", 4: b"tag\n\n"}[t]))))
    bomb = zlib.compress(b"\0" * (64 << 20), 9)
    out.append(("bomb-declared-small", fin(hdr(1) + W.entry_header(3, 100) + bomb), 100))
    out.append(("bomb-declared-1MiB", fin(hdr(1) + W.entry_header(3, 1 << 20) + bomb), 1 << 20))
    chain = hdr(41) + W.entry_header(3, len(blob)) + zlib.compress(blob)
    offs = [12]
    cur = blob
    for i in range(40):
        nd = W.encode_varint_size(len(cur)) + W.encode_varint_size(len(cur) + 1) + b"\x80"[:0] + bytes([0x90, len(cur)]) + b"\x01x" if len(cur) < 256 else None
        nd = W.encode_varint_size(len(cur)) + W.encode_varint_size(len(cur) + 1) + _copy_all(len(cur)) + b"\x01x"
        pos = len(chain)
        chain += W.entry_header(6, len(nd)) + W.ofs_encode(pos - offs[-1]) + zlib.compress(nd)
        offs.append(pos)
        cur = cur + b"x"
    out.append(("valid-depth-40-chain", fin(chain)))
    # over-long output spread over several input slices (a single-slice bomb is cut by the first budget check; the budget has to shrink
    # with what was already inflated)
    stored = zlib.compressobj(0)
    big = stored.compress(os.urandom(1) * (4 << 20)) + stored.flush()
    out.append(("overlong-stored-4MiB-declared-70000", fin(hdr(1) + W.entry_header(3, 70000) + big), 70000))
    rnd = random.Random(5)
    noisy = bytes(rnd.getrandbits(8) for _ in range(300000))
    out.append(("overlong-incompressible-300K-declared-66000", fin(hdr(1) + W.entry_header(3, 66000) + zlib.compress(noisy)), 66000))
    out.append(("overlong-delta-stored-2MiB-declared-70000", fin(hdr(2) + good[12:] + W.entry_header(6, 70000) + W.ofs_encode(len(good) - 12) +
                                                               zlib.compress(b"\x07" * (2 << 20), 0)), 70000))
    # hostile delta *content* inside a structurally perfect pack (base = the 70-byte blob at offset 12)
    L = len(blob)

    def dpack(name, payload, ref=False):
        ent = (W.entry_header(7, len(payload)) + bid) if ref else (W.entry_header(6, len(payload)) + W.ofs_encode(len(good) - 12))
        out.append((name + ("-ref" if ref else "-ofs"), fin(hdr(2) + good[12:] + ent + zlib.compress(payload))))
    vs = W.encode_varint_size
    for ref in (False, True):
        dpack("delta-copy-runs-past-base-end", vs(L) + vs(8) + bytes([0x91, L - 4, 8]), ref)
        dpack("delta-copy-starts-past-base-end", vs(L) + vs(4) + bytes([0x91, L + 10, 4]), ref)
        dpack("delta-copy-offset-4GiB", vs(L) + vs(4) + bytes([0x9f, 0xff, 0xff, 0xff, 0xff, 4]), ref)
        dpack("delta-copy-size-0-means-64K", vs(L) + vs(0x10000) + bytes([0x80]), ref)
        dpack("delta-copy-size-bytes-all-zero", vs(L) + vs(0x10000) + bytes([0x90, 0x00]), ref)
        dpack("delta-insert-runs-past-delta-end", vs(L) + vs(20) + bytes([20]) + b"short", ref)
        dpack("delta-result-shorter-than-declared", vs(L) + vs(50) + bytes([0x90, 10]), ref)
        dpack("delta-result-longer-than-declared", vs(L) + vs(5) + bytes([0x90, 40]), ref)
        dpack("delta-base-size-mismatch", vs(L + 7) + vs(10) + bytes([0x90, 10]), ref)
        dpack("delta-reserved-opcode-0", vs(L) + vs(10) + bytes([0x00, 0x90, 10]), ref)
        dpack("delta-truncated-varint", b"\xff\xff", ref)
        dpack("delta-size-varint-12-bytes", b"\xff" * 11 + b"\x01" + vs(4) + bytes([0x90, 4]), ref)
        dpack("delta-valid-control", vs(L) + vs(10) + bytes([0x90, 10]), ref)
    # malformed payload that comes after well-formed objects (the pack is structurally perfect): nothing of it may stay
    blob2 = b"second good blob\n"
    for t, nm, bad in ((2, "tree", b"100644 nameonly"), (2, "tree-badmode", b"1x0644 a\0" + b"\x11" * 20), (1, "commit", b"tree\nparent\n"), (4, "tag", b"object\ntype\n"),
                       (1, "commit-notree", b"author A <a@b> 1 +0000\n\nmsg\n")):
        body = hdr(3) + good[12:] + W.entry_header(3, len(blob2)) + zlib.compress(blob2) + W.entry_header(t, len(bad)) + zlib.compress(bad)
        out.append(("good-objects-then-malformed-" + nm, fin(body)))
        body = hdr(3) + W.entry_header(t, len(bad)) + zlib.compress(bad) + good[12:] + W.entry_header(3, len(blob2)) + zlib.compress(blob2)
        out.append(("malformed-" + nm + "-then-good-objects", fin(body)))
    out.append(("two-packs-concatenated", fin(good) + fin(good)))
    out.append(("empty-pack", fin(hdr(0))))
    out.append(("only-header", hdr(1)))
    out.append(("nothing", b""))
    return out


def _copy_all(n):
    """copy op covering [0, n)"""
    op = 0x80
    args = b""
    sz = n
    b0, b1, b2 = sz & 0xFF, (sz >> 8) & 0xFF, (sz >> 16) & 0xFF
    if b0:
        op |= 0x10
        args += bytes([b0])
    if b1:
        op |= 0x20
        args += bytes([b1])
    if b2:
        op |= 0x40
        args += bytes([b2])
    return bytes([op]) + args


def run_grammar(case):
    if "seeds" not in _st:
        worker_init()
    if "grammar" not in _st:
        _st["grammar"] = {}
        for t in grammar_packs():
            _st["grammar"][t[0]] = t[2] if len(t) > 2 else None
            _st["seeds"]["g:" + t[0]] = t[1]
    muts = [("noop",)]
    res = run_pack({"seed": case["seed"], "seedname": "g:" + case["name"], "path": case["path"], "mutations": muts,
                    "declared_max": _st["grammar"][case["name"]]})
    for v in res["viol"]:
        v["sig"] = v["sig"].replace("/noop", "")
    res["nontrivial"] = ["grammar:%s:%s" % (case["path"], case["name"])]
    return res


# ------------------------------------------------------------------------------ damaged installed files
def run_installed(case):
    """A damaged file that is already installed (loose object, idx, index, packed-refs, commit-graph, midx): every read either
    raises an ordinary error or returns bytes that hash to the requested name."""
    from dulwich.index import Index
    from dulwich.repo import Repo
    if "seeds" not in _st:
        worker_init()
    rng = random.Random(case["seed"])
    viol, stats = [], {}
    what = case["what"]
    if "inst" not in _st:
        d = _st["scratch"].sub("inst")
        shutil.rmtree(d)
        shutil.copytree(_st["src"], d, symlinks=True)
        core.git(["repack", "-adq"], cwd=d)
        # one loose object
        lid = core.git(["hash-object", "-w", "--stdin"], cwd=d, input=b"a loose blob\n" * 20).stdout.strip()
        core.git(["commit-graph", "write", "--reachable"], cwd=d)
        core.git(["multi-pack-index", "write"], cwd=d)
        core.git(["pack-refs", "--all"], cwd=d)
        _st["inst"] = d
        _st["inst_loose"] = lid
        g = os.path.join(d, ".git")
        pk = [f for f in os.listdir(os.path.join(g, "objects", "pack")) if f.endswith(".idx")][0]
        _st["inst_files"] = {"loose": os.path.join("objects", lid[:2].decode(), lid[2:].decode()), "idx": os.path.join("objects", "pack", pk),
                             "index": "index", "packed-refs": "packed-refs", "commit-graph": os.path.join("objects", "info", "commit-graph"),
                             "midx": os.path.join("objects", "pack", "multi-pack-index")}
        _st["inst_objs"] = {}
        lst = core.git(["cat-file", "--batch-all-objects", "--batch-check"], cwd=d).stdout.splitlines()
        _st["inst_ids"] = [l.split()[0] for l in lst]
        _st["inst_refs"] = {}
        for line in core.git(["for-each-ref", "--format=%(refname) %(objectname)"], cwd=d).stdout.splitlines():
            n, v = line.split()
            _st["inst_refs"][n] = v
    rel = _st["inst_files"][what]
    good = open(os.path.join(_st["inst"], ".git", rel), "rb").read()
    d = os.path.join(_st["scratch"].path, "iw%d" % _st.setdefault("n", 0))
    _st["n"] += 1
    shutil.copytree(_st["inst"], d, symlinks=True)
    target = os.path.join(d, ".git", rel)
    os.chmod(target, 0o644)
    ids = _st["inst_ids"]
    for mut in case["mutations"]:
        if mut[0] in ("xor", "set", "trunc") and mut[1] >= len(good):
            continue
        data = apply_mutation(good, mut)
        with open(target, "wb") as f:
            f.write(data)
        t0 = time.process_time()
        stats["cases"] = stats.get("cases", 0) + 1
        mclass = mut[0]
        tag = "installed-%s/%s" % (what, mclass)
        try:
            r = Repo(d)
            try:
                if what in ("loose", "idx", "midx"):
                    probe = [_st["inst_loose"]] if what == "loose" else rng.sample(ids, min(6, len(ids)))
                    for i in probe:
                        try:
                            o = r.object_store[i]
                            if oid(o.type_name, o.as_raw_string()) != i:
                                viol.append({"sig": "C04/%s/store-returned-bytes-that-do-not-hash-to-the-requested-name" % tag, "mut": mut})
                            stats["installed_read_ok_rehashed"] = stats.get("installed_read_ok_rehashed", 0) + 1
                        except (MemoryError, RecursionError) as e:
                            viol.append({"sig": "C04/%s/resource:%s" % (tag, type(e).__name__), "mut": mut})
                        except Exception:
                            stats["installed_read_raised_ordinary"] = stats.get("installed_read_raised_ordinary", 0) + 1
                    try:
                        _ = i in r.object_store
                        n = len(list(r.object_store))
                    except (MemoryError, RecursionError) as e:
                        viol.append({"sig": "C04/%s/resource:%s" % (tag, type(e).__name__), "mut": mut})
                    except Exception:
                        pass
                elif what == "index":
                    try:
                        idx = Index(os.path.join(d, ".git", "index"))
                        list(idx)
                    except (MemoryError, RecursionError) as e:
                        viol.append({"sig": "C04/%s/resource:%s" % (tag, type(e).__name__), "mut": mut})
                    except Exception:
                        pass
                elif what == "packed-refs":
                    import re
                    first = None
                    try:
                        got = r.refs.as_dict()
                        first = ("value", dict(got))
                        for n_, v in got.items():
                            if len(v) != 40 or any(c not in b"0123456789abcdef" for c in v):
                                viol.append({"sig": "C04/%s/ref-value-is-not-an-object-id" % tag, "mut": mut, "value": repr(v)[:60]})
                                break
                    except (MemoryError, RecursionError) as e:
                        viol.append({"sig": "C04/%s/resource:%s" % (tag, type(e).__name__), "mut": mut})
                    except Exception as e:
                        first = ("raised", type(e).__name__)
                    # the same handle asked again: a file that was refused must not be served from a half-filled cache afterwards
                    if first is not None:
                        try:
                            second = ("value", dict(r.refs.as_dict()))
                        except (MemoryError, RecursionError):
                            raise
                        except Exception as e:
                            second = ("raised", type(e).__name__)
                        stats["packed_refs_asked_twice"] = stats.get("packed_refs_asked_twice", 0) + 1
                        if first[0] == "raised" and second[0] == "value":
                            viol.append({"sig": "C04/%s/second-read-on-the-same-handle-serves-data-after-the-first-was-refused" % tag, "mut": mut,
                                         "n_refs": len(second[1])})
                        elif first[0] == "value" and second[0] == "value" and first[1] != second[1]:
                            viol.append({"sig": "C04/%s/two-reads-on-the-same-handle-differ" % tag, "mut": mut})
                        if first[0] == "raised":
                            wellformed = set(re.findall(rb"(?m)^[0-9a-f]{40} refs/[^\n]+$", data))
                            try:
                                r.refs.add_packed_refs({b"refs/heads/added-after-damage": _st["inst_ids"][0]})
                                updated = True
                            except (MemoryError, RecursionError):
                                raise
                            except Exception:
                                updated = False
                            if updated:
                                now_ = open(target, "rb").read()
                                lost = [l for l in wellformed if l not in now_]
                                if lost:
                                    viol.append({"sig": "C04/%s/update-after-refused-read-rewrote-the-file-from-a-partial-view" % tag, "mut": mut, "lost_lines": len(lost)})
                elif what == "commit-graph":
                    try:
                        from dulwich.graph import find_merge_base
                        cg = r.object_store.get_commit_graph()
                        heads = list(_st["inst_refs"].values())[:2]
                        find_merge_base(r, heads + heads[:1])
                        list(r.get_walker(include=[heads[0]], max_entries=5))
                    except (MemoryError, RecursionError) as e:
                        viol.append({"sig": "C04/%s/resource:%s" % (tag, type(e).__name__), "mut": mut})
                    except Exception:
                        pass
            finally:
                r.close()
        except (MemoryError, RecursionError) as e:
            viol.append({"sig": "C04/%s/resource:%s" % (tag, type(e).__name__), "mut": mut})
        except Exception:
            pass
        except BaseException as e:
            viol.append({"sig": "C04/%s/base:%s" % (tag, type(e).__name__), "mut": mut, "msg": str(e)[:100]})
        cpu = time.process_time() - t0
        if cpu > 5.0:
            viol.append({"sig": "C04/%s/cpu-time-blow-up" % tag, "cpu": cpu, "mut": mut})
    shutil.rmtree(d, ignore_errors=True)
    seen, out = set(), []
    for v in viol:
        if v["sig"] not in seen:
            seen.add(v["sig"])
            out.append(v)
    return {"viol": out, "stats": stats, "evaluations": stats.get("cases", 0),
            "nontrivial": ["inst:%s:%s%s" % (what, m[0], m[1] if len(m) > 1 else "") for m in case["mutations"][:300]]}


def run_iofault(case):
    """fault_sequences: a *valid* pack is ingested while the k-th mutating file-system call fails (ENOSPC / EIO), for every k: the call
    raises an ordinary error and the store is observably unchanged (same objects through a fresh Repo, no new pack-* files), or the fault
    was absorbed and everything ingested hashes to its name."""
    import errno
    import gc
    from vt.mon import fsint
    if "seeds" not in _st:
        worker_init()
    rng = random.Random(case["seed"])
    seed = _st["seeds"][case["seedname"]]
    path = case["path"]
    viol, stats = [], {}
    base_ids = _st.get("base_dul_view") or dul_view(_st["base"])
    _st["base_dul_view"] = base_ids
    # "write-buffered" = a write() call that only reaches the user-space buffer: failing it stands for the buffer filling up at that very
    # call (large files) - the error then surfaces inside the writer routine, not only at close()
    FOPS = {"write", "write-buffered", "flush", "fsync", "chmod", "rename", "replace", "creat", "open-w", "close-w", "remove", "truncate", "mkdir",
            "utime", "link"}

    def one(fault_at, kind):
        d = fresh_store()
        layer = fsint.Layer(d)
        count = [0]

        def hook(ev):
            if ev["op"] in FOPS:
                count[0] += 1
                if fault_at is not None and count[0] == fault_at:
                    ev["injected"] = kind
                    raise OSError(errno.ENOSPC if kind == "ENOSPC" else errno.EIO, "injected " + kind)
        layer.hook = hook
        fsint.install(layer)
        layer.register_actor("main")
        out = "ok"
        try:
            try:
                ingest(path, d, seed, random.Random(1))
            except (MemoryError, RecursionError) as e:
                out = "resource:" + type(e).__name__
            except Exception as e:
                out = "raised:" + type(e).__name__
            except BaseException as e:
                out = "base:" + type(e).__name__
        finally:
            layer.unregister_actor()
            fsint.uninstall()
        gc.collect()
        inj = [e for e in layer.log if e.get("injected")]
        return d, out, count[0], (inj[0]["op"], os.path.basename(inj[0]["path"] or "")[:12]) if inj else None
    d0, out0, n, _ = one(None, None)
    shutil.rmtree(d0, ignore_errors=True)
    if out0 != "ok":
        return {"viol": [{"sig": "C04/iofault/%s/HARNESS-valid-seed-not-ingested-%s" % (path, out0)}], "stats": {}, "evaluations": 1, "nontrivial": []}
    stats["iofault_points"] = n
    for k in range(1, n + 1):
        for kind in ("ENOSPC", "EIO"):
            d, out, _n, where = one(k, kind)
            stats["cases"] = stats.get("cases", 0) + 1
            stats["iofault_injections"] = stats.get("iofault_injections", 0) + 1
            wtag = "%s@%s" % (kind, ("%s:%s" % (where[0], "idx" if ".idx" in where[1] or "idx" in where[1] else "pack" if "pack" in where[1] else "other")) if where else "none")
            tag = "iofault/%s/%s/%s" % (path, case["seedname"], wtag)
            if out.startswith(("resource", "base")):
                viol.append({"sig": "C04/%s/%s" % (tag, out), "k": k})
            try:
                view = dul_view(d)
            except Exception as e:
                viol.append({"sig": "C04/%s/store-unusable-after-failed-ingestion-%s" % (tag, type(e).__name__), "k": k, "outcome": out, "msg": str(e)[:120]})
                view = None
            if view is not None:
                new = view - base_ids
                if base_ids - view:
                    viol.append({"sig": "C04/%s/pre-existing-objects-vanished" % tag, "k": k})
                if out != "ok" and new:
                    viol.append({"sig": "C04/%s/failed-ingestion-left-objects-visible" % tag, "k": k, "n_new": len(new), "outcome": out})
                if new:
                    from dulwich.repo import Repo
                    r = Repo(d)
                    try:
                        for i in new:
                            try:
                                o = r.object_store[i]
                                if oid(o.type_name, o.as_raw_string()) != i:
                                    viol.append({"sig": "C04/%s/visible-object-does-not-hash-to-its-name" % tag, "k": k})
                                    break
                            except Exception as e:
                                viol.append({"sig": "C04/%s/visible-object-unreadable-%s" % (tag, type(e).__name__), "k": k, "outcome": out})
                                break
                    finally:
                        r.close()
                if out != "ok":
                    pd = os.path.join(d, ".git", "objects", "pack")
                    packs = sorted(f for f in os.listdir(pd) if f.startswith("pack-") and f.endswith((".pack", ".idx")))
                    basep = set(p for p in _st["base_objects"]["packfiles"] if p.endswith((".pack", ".idx")))
                    newf = [f for f in packs if f not in basep]
                    stems = set(f.rsplit(".", 1)[0] for f in newf)
                    pairs = [st_ for st_ in stems if st_ + ".pack" in packs and st_ + ".idx" in packs]
                    if pairs:
                        # a pack is in use only when data file and index exist under one name
                        viol.append({"sig": "C04/%s/failed-ingestion-left-a-pack-with-its-index-installed" % tag, "k": k, "packs": newf[:6]})
                    elif newf:
                        stats["orphan_pack_or_idx_left_by_failed_ingestion"] = stats.get("orphan_pack_or_idx_left_by_failed_ingestion", 0) + 1
            shutil.rmtree(d, ignore_errors=True)
    seen, outv = set(), []
    for v in viol:
        if v["sig"] not in seen:
            seen.add(v["sig"])
            outv.append(v)
    return {"viol": outv, "stats": stats, "evaluations": stats.get("cases", 0), "nontrivial": ["iofault:%s:%s:%d" % (path, case["seedname"], k) for k in range(n)]}


def run_case(case):
    return {"pack": run_pack, "grammar": run_grammar, "installed": run_installed, "iofault": run_iofault}[case["kind"]](case)


SEED_LEN_GUESS = {"git-full": 2200, "git-ofs": 1500, "git-ref": 1500, "git-thin": 1200, "dulwich-deltified": 1600}
PATHS = ["add_thin_pack", "add_pack+commit", "stream-reader", "memory-add_thin_pack", "receive-pack"]
GRAMMAR = ['count+1',
           'count-1-with-extra-object',
           'count-huge',
           'count-zero-with-object',
           'wrong-trailer',
           'version-3',
           'version-9',
           'bad-magic',
           'size-header-too-small',
           'size-header-too-big',
           'size-header-2^64',
           'zlib-trailing-garbage',
           'type-0',
           'type-5',
           'ofs-delta-offset-0',
           'ofs-delta-beyond-start',
           'ofs-delta-into-middle-of-entry',
           'ofs-delta-forward-first-entry',
           'ref-delta-to-self',
           'ref-delta-missing-base',
           'ref-delta-two-cycle',
           'delta-empty-payload',
           'zero-payload-commit',
           'garbage-commit',
           'headerless-commit',
           'zero-payload-tree',
           'garbage-tree',
           'headerless-tree',
           'zero-payload-tag',
           'garbage-tag',
           'headerless-tag',
           'bomb-declared-small',
           'bomb-declared-1MiB',
           'valid-depth-40-chain',
           'overlong-stored-4MiB-declared-70000',
           'overlong-incompressible-300K-declared-66000',
           'overlong-delta-stored-2MiB-declared-70000',
           'delta-copy-runs-past-base-end-ofs',
           'delta-copy-starts-past-base-end-ofs',
           'delta-copy-offset-4GiB-ofs',
           'delta-copy-size-0-means-64K-ofs',
           'delta-copy-size-bytes-all-zero-ofs',
           'delta-insert-runs-past-delta-end-ofs',
           'delta-result-shorter-than-declared-ofs',
           'delta-result-longer-than-declared-ofs',
           'delta-base-size-mismatch-ofs',
           'delta-reserved-opcode-0-ofs',
           'delta-truncated-varint-ofs',
           'delta-size-varint-12-bytes-ofs',
           'delta-valid-control-ofs',
           'delta-copy-runs-past-base-end-ref',
           'delta-copy-starts-past-base-end-ref',
           'delta-copy-offset-4GiB-ref',
           'delta-copy-size-0-means-64K-ref',
           'delta-copy-size-bytes-all-zero-ref',
           'delta-insert-runs-past-delta-end-ref',
           'delta-result-shorter-than-declared-ref',
           'delta-result-longer-than-declared-ref',
           'delta-base-size-mismatch-ref',
           'delta-reserved-opcode-0-ref',
           'delta-truncated-varint-ref',
           'delta-size-varint-12-bytes-ref',
           'delta-valid-control-ref',
           'good-objects-then-malformed-tree',
           'malformed-tree-then-good-objects',
           'good-objects-then-malformed-tree-badmode',
           'malformed-tree-badmode-then-good-objects',
           'good-objects-then-malformed-commit',
           'malformed-commit-then-good-objects',
           'good-objects-then-malformed-tag',
           'malformed-tag-then-good-objects',
           'good-objects-then-malformed-commit-notree',
           'malformed-commit-notree-then-good-objects',
           'two-packs-concatenated',
           'empty-pack',
           'only-header',
           'nothing']


def main(ctx):
    cases = []
    # the parent needs the seed lengths: build them once here too (same deterministic construction is not guaranteed byte-identical across
    # processes because of timestamps, so positions are generated up to a safe upper bound and clipped in the worker by IndexError handling)
    import tempfile
    probe = probe_lengths()
    patterns = [("xor", 0x01), ("xor", 0x80), ("set", 0x00), ("set", 0xFF)] if not ctx.thorough else \
        [("xor", 1 << b) for b in range(8)] + [("set", 0x00), ("set", 0xFF)]
    seeds_q = ["git-ofs", "git-thin", "dulwich-deltified"] if not ctx.thorough else list(probe)
    paths_q = ["add_thin_pack", "add_pack+commit", "stream-reader"] if not ctx.thorough else PATHS
    B = 120
    for sn in seeds_q:
        n = probe[sn]
        for path in paths_q:
            if path in ("add_pack+commit",) and sn == "git-thin":
                continue
            muts = []
            stride = 1 if (ctx.thorough or path == "add_thin_pack") else 2
            for pos in range(0, n, stride):
                for k, v in (patterns if path == "add_thin_pack" or ctx.thorough else patterns[:2]):
                    muts.append([k, pos, v])
            for cut in range(0, n, 1 if ctx.thorough else 3):
                muts.append(["trunc", cut])
            muts += [["tail", "00"], ["tail", "00" * 20], ["tail", _hex_second_pack()], ["splice", n // 3, n // 2], ["splice", 12, 40]]
            for i in range(0, len(muts), B):
                cases.append({"kind": "pack", "seed": "%d/%s/%s/%d" % (ctx.seed, sn, path, i), "seedname": sn, "path": path, "mutations": muts[i:i + B]})
    for path in ["add_thin_pack", "add_pack+commit", "stream-reader", "memory-add_thin_pack", "receive-pack"]:
        for g in GRAMMAR:
            cases.append({"kind": "grammar", "seed": "%d/g/%s/%s" % (ctx.seed, path, g), "name": g, "path": path})
    # receive-pack and memory store over a sample of byte mutations
    rng = ctx.sub_rng("sample")
    for path in ("receive-pack", "memory-add_thin_pack", "add_pack_data"):
        for sn in (("git-ofs", "git-thin") if path != "add_pack_data" else ("git-full", "git-ref")):
            n = probe[sn]
            muts = [["xor", rng.randrange(n), rng.choice([1, 0x80])] for _ in range(ctx.budget(150, 1500))] + [["trunc", rng.randrange(n)] for _ in range(30)]
            for i in range(0, len(muts), 60):
                cases.append({"kind": "pack", "seed": "%d/s/%s/%s/%d" % (ctx.seed, sn, path, i), "seedname": sn, "path": path, "mutations": muts[i:i + 60]})
    for sn in ("git-ofs", "git-thin", "git-ref") if not ctx.thorough else list(probe):
        for path in ("add_thin_pack", "add_pack+commit", "receive-pack"):
            if path == "add_pack+commit" and sn == "git-thin":
                continue
            cases.append({"kind": "iofault", "seed": "%d/io/%s/%s" % (ctx.seed, sn, path), "seedname": sn, "path": path})
    inst_len = {"loose": 60, "idx": 1400, "index": 500, "packed-refs": 250, "commit-graph": 1500, "midx": 1600}
    for what, n in inst_len.items():
        muts = []
        for pos in range(0, n, 1 if ctx.thorough else 2):
            muts.append(["xor", pos, 0x01])
            muts.append(["xor", pos, 0x80])
        for cut in range(0, n, 2):
            muts.append(["trunc", cut])
        muts += [["tail", "00" * 30], ["raw", ""], ["raw", "00" * 64]]
        for i in range(0, len(muts), 150):
            cases.append({"kind": "installed", "seed": "%d/i/%s/%d" % (ctx.seed, what, i), "what": what, "mutations": muts[i:i + 150]})
    ctx.rule = ("pack seeds %s x ingestion paths %s: every byte position x %d patterns, every %s truncation length, tails and splices (exhaustive "
                "per seed, positions beyond the seed length are skipped); %d grammar-aware hostile packs x 5 paths; damaged installed files "
                "(loose object, idx, index, packed-refs, commit-graph, multi-pack-index): every %s byte x 2 patterns + truncations; I/O faults: a valid "
                "pack ingested while the k-th mutating file-system call fails with ENOSPC/EIO, every k, 3 paths. non-trivial = "
                "distinct (path, seed, mutation)." % (seeds_q, paths_q, len(patterns), "" if ctx.thorough else "3rd", len(GRAMMAR),
                                                      "" if ctx.thorough else "2nd"))
    ctx.assumptions = ["'ordinary error' = any Exception subclass; MemoryError/RecursionError, BaseExceptions, signals, CPU blow-ups and hangs are violations",
                       "leftover tmp_pack_* files after a failed ingestion are counted, not judged (not objects; pruned by design)",
                       "Pack.__getitem__/get_raw trust the index by design; only BaseObjectStore.__getitem__ (verified) is judged for damaged idx/midx"]
    ctx.exhaustive = False

    def on_result(case, out):
        if out["status"] != "ok":
            nm = case.get("seedname") or case.get("name") or case.get("what")
            if out["status"] == "timeout":
                ctx.violation("C04/%s/%s/hang-or-cpu-blow-up(worker-timeout)" % (case.get("path", case["kind"]), nm), case, {"stack": out.get("stack", "")[-600:]})
            elif out["status"] == "died":
                tail = out.get("stderr", "")
                ctx.violation("C04/%s/%s/process-died/%s" % (case.get("path", case["kind"]), nm, "alloc" if "memory allocation" in tail else "signal-%s" % out.get("signal")),
                              case, {"stderr": tail[-400:]})
            else:
                ctx.violation("C04/%s/harness-%s/%s" % (case["kind"], out["status"], out.get("exc")), case, out)
            return
        res = out["result"]
        ctx.merge(res)
        for v in res.get("viol", []):
            c = dict(case)
            if "mut" in v:
                c["mutations"] = [v["mut"]]
            ctx.violation(v["sig"], c, v)
        if ctx.stats["sampled_%s" % case["kind"]] < 2:
            ctx.sample({k: (v if k != "mutations" else v[:5]) for k, v in case.items()}, case["kind"])
            ctx.count("sampled_%s" % case["kind"])

    pool.pmap("vt.checks.c04", cases, timeout=600, on_result=on_result, ext_table=getattr(ctx, "ext_table", None), rlimit_as=3 << 30)
    ctx.info["cases_with_rust_extensions"] = ctx.stats["cases"]
    # the pure-Python twins of the native decoders see the grammar attacks and one exhaustive seed as well
    pure = [dict(c, seed=c["seed"] + "/pure") for c in cases if c["kind"] == "grammar" or (c["kind"] == "pack" and c["seedname"] == "git-ofs"
                                                                                           and c["path"] == "add_thin_pack")]
    pool.pmap("vt.checks.c04", pure, timeout=600, on_result=on_result, block_ext=True, rlimit_as=3 << 30)
    ctx.info["cases_pure_python"] = ctx.stats["cases"] - ctx.info["cases_with_rust_extensions"]
    if ctx.stats["cases"] < 1000:
        return "too few cases evaluated (%d)" % ctx.stats["cases"]
    return None


def _hex_second_pack():
    body = b"PACK" + struct.pack(">LL", 2, 0)
    return (body + hashlib.sha1(body).digest()).hex()


def probe_lengths():
    """seed lengths: the construction is deterministic (fixed dates, one pack thread), so the parent builds them once to enumerate positions."""
    worker_init()
    try:
        out = {k: len(v) for k, v in _st["seeds"].items()}
    finally:
        worker_exit()
        _st.clear()
    out_guess = dict(SEED_LEN_GUESS)
    out_guess.update(out)
    return out_guess
