"""C14 — optional acceleration data never changes any answer.

Differential monitor.  A query battery (object lookup, membership, iteration, parents provider, find_shallow, get_depth,
_collect_ancestors, reachability provider, MissingObjectFinder, merge bases, walker, refs/peeled/symrefs) is run through a
fresh Repo on the repository *with* its acceleration files and on a byte copy from which only the acceleration files
were removed (commit-graph, multi-pack-index, *.bitmap/*.rev; idx regenerated as v2 by C git; packed-refs exploded
into loose refs).  The two answer maps must be equal.  Acceleration files are written by C git or by dulwich, then made
stale by continuing the history (new loose commits, new packs, deleted refs, full repack, prune) with the old files put
back, or replaced by files from another repository / another pack.  When a difference is found the responsible file
is isolated by removing one accelerator at a time.
"""
import hashlib
import os
import random
import shutil

from vt import core, pool
from vt.checks import c05

LEVEL = "exploration"
_st = {}

ACCELS = ["commit-graph", "midx", "bitmap", "packed-refs", "idx"]


def worker_exit():
    if "scratch" in _st:
        _st["scratch"].cleanup()


def scratch():
    if "scratch" not in _st:
        import logging
        logging.getLogger("dulwich").setLevel(logging.ERROR)
        logging.disable(logging.WARNING)
        _st["scratch"] = core.Scratch("c14-")
    return _st["scratch"]


def extend_history(d, rng, k, tagp=0.3):
    """continue the history with git fast-import on the existing branches."""
    brs = [b.decode() for b in core.git(["for-each-ref", "--format=%(refname)", "refs/heads"], cwd=d).stdout.split()]
    s = []
    now = 1700100000 + rng.randrange(1000) * 60
    made = []
    for i in range(k):
        br = rng.choice(brs) if brs and rng.random() < 0.8 else "refs/heads/n%d" % rng.randrange(3)
        s.append(b"commit %s\nmark :%d\ncommitter C <c@d> %d +0000\ndata 2\nx%d\n" % (br.encode(), 1000 + i, now + i * 60, i % 10))
        if br in made:
            pass                      # fast-import continues a branch it already touched in this stream
        elif br in brs:
            s.append(b"from %s^0\n" % br.encode())
        if br in made or br in brs:
            others = [b for b in brs if b != br and b not in made]
            if others and rng.random() < 0.35:
                m1 = rng.choice(others)
                s.append(b"merge %s^0\n" % m1.encode())
                if len(others) > 1 and rng.random() < 0.4:
                    s.append(b"merge %s^0\n" % rng.choice([o for o in others if o != m1]).encode())
        elif [b for b in brs if b not in made] and rng.random() < 0.7:
            s.append(b"from %s^0\n" % rng.choice([b for b in brs if b not in made]).encode())
        body = b"ext %d %d\n" % (i, rng.randrange(5)) * rng.choice([1, 20])
        s.append(b"M 644 inline %s\ndata %d\n%s\n" % (rng.choice([b"a.txt", b"new/x.txt", b"dir/c.txt"]), len(body), body))
        made.append(br)
        if br not in brs:
            brs.append(br)
    core.git(["fast-import", "--quiet", "--force"], cwd=d, input=b"".join(s))
    if rng.random() < tagp:
        core.git(["tag", "-a", "-m", "later", "later%d" % rng.randrange(100), rng.choice(brs)], cwd=d, check=False)


def packdir(d):
    return os.path.join(d, "objects", "pack")


def pack_bases(d):
    return sorted(f[:-5] for f in os.listdir(packdir(d)) if f.endswith(".pack"))


# ------------------------------------------------------------------------------ writers
def write_accel(d, which, writer, rng, feats):
    from dulwich.repo import Repo
    if which == "commit-graph":
        if writer == "git":
            args = ["commit-graph", "write", "--reachable"]
            if rng.random() < 0.3:
                args.append("--changed-paths")
            core.git(args, cwd=d)
        else:
            r = Repo(d)
            try:
                r.object_store.write_commit_graph()
            finally:
                r.close()
    elif which == "midx":
        if not pack_bases(d):
            return False
        if writer == "git":
            core.git(["multi-pack-index", "write"], cwd=d)
        else:
            r = Repo(d)
            try:
                r.object_store.write_midx()
            finally:
                r.close()
    elif which == "bitmap":
        if writer == "git":
            hc = rng.choice(["true", "false"])
            lt = rng.choice(["true", "false"])
            feats.add("git-bitmap-hashcache=%s-lookup=%s" % (hc, lt))
            core.git(["repack", "-adbq"], cwd=d, extra_cfg=["pack.writeBitmapHashCache=" + hc, "pack.writeBitmapLookupTable=" + lt])
        else:
            if not pack_bases(d):
                core.git(["repack", "-adq"], cwd=d)
            r = Repo(d)
            try:
                refs = {k: v for k, v in r.get_refs().items()}
                r.object_store.pack_write_bitmap_hash_cache = rng.random() < 0.5
                r.object_store.pack_write_bitmap_lookup_table = rng.random() < 0.5
                r.object_store.generate_pack_bitmaps(refs, commit_interval=rng.choice([None, 1, 3]))
            finally:
                r.close()
    elif which == "packed-refs":
        if writer == "git":
            core.git(["pack-refs", "--all"] if rng.random() < 0.7 else ["pack-refs"], cwd=d)
        else:
            r = Repo(d)
            try:
                r.refs.pack_refs(all=rng.random() < 0.7)
            finally:
                r.close()
    elif which == "idx":
        ver = rng.choice([1, 2, 3]) if writer == "dulwich" else 1
        feats.add("idx-v%d-by-%s" % (ver, writer))
        for b in pack_bases(d):
            p = os.path.join(packdir(d), b)
            if writer == "git":
                os.chmod(p + ".idx", 0o644)
                os.unlink(p + ".idx")
                core.git(["index-pack", "--index-version=1", p + ".pack"], cwd=d)
            else:
                from dulwich.object_format import SHA1
                from dulwich.pack import PackData
                pd = PackData(p + ".pack", SHA1)
                try:
                    os.chmod(p + ".idx", 0o644)
                    os.unlink(p + ".idx")
                    getattr(pd, "create_index_v%d" % ver)(p + ".idx")
                finally:
                    pd.close()
    return True


def accel_files(d):
    """paths (relative to d) of acceleration files currently present."""
    out = []
    for rel in ("objects/info/commit-graph", "objects/pack/multi-pack-index"):
        if os.path.exists(os.path.join(d, rel)):
            out.append(rel)
    for f in sorted(os.listdir(packdir(d))):
        if f.endswith((".bitmap", ".rev")) or f.startswith("multi-pack-index-"):
            out.append("objects/pack/" + f)
    return out


def save_accel(d):
    return {rel: open(os.path.join(d, rel), "rb").read() for rel in accel_files(d)}


def restore_accel(d, saved, rng, feats):
    """Put saved acceleration files back (a tool that does not know them leaves them behind). A bitmap whose pack is gone is put under
    the name of a surviving pack (= bitmap built for a different pack)."""
    bases = pack_bases(d)
    for rel, data in saved.items():
        p = os.path.join(d, rel)
        if rel.endswith((".bitmap", ".rev")):
            b = os.path.basename(rel).rsplit(".", 1)[0]
            if b not in bases:
                if not bases or rel.endswith(".rev"):
                    continue
                p = os.path.join(packdir(d), bases[0] + ".bitmap")
                feats.add("bitmap-of-removed-pack-under-surviving-pack-name")
        if os.path.exists(p):
            continue
        os.makedirs(os.path.dirname(p), exist_ok=True)
        with open(p, "wb") as f:
            f.write(data)
        feats.add("restored:" + os.path.basename(rel).split("-")[0].split(".")[-1])


def strip_accel(src, dst, only=None):
    """copy src to dst with acceleration data removed (all kinds, or only the kinds in `only`)."""
    shutil.copytree(src, dst, symlinks=True)
    kinds = set(only or ACCELS)
    if "commit-graph" in kinds:
        p = os.path.join(dst, "objects/info/commit-graph")
        if os.path.exists(p):
            os.unlink(p)
        shutil.rmtree(os.path.join(dst, "objects/info/commit-graphs"), ignore_errors=True)
    if "midx" in kinds:
        for f in os.listdir(packdir(dst)):
            if f.startswith("multi-pack-index"):
                os.unlink(os.path.join(packdir(dst), f))
    if "bitmap" in kinds:
        for f in os.listdir(packdir(dst)):
            if f.endswith((".bitmap", ".rev")):
                os.unlink(os.path.join(packdir(dst), f))
    if "idx" in kinds:
        for b in pack_bases(dst):
            p = os.path.join(packdir(dst), b)
            if os.path.exists(p + ".idx"):
                os.chmod(p + ".idx", 0o644)
                os.unlink(p + ".idx")
            core.git(["index-pack", "--index-version=2", p + ".pack"], cwd=dst)
    if "packed-refs" in kinds:
        p = os.path.join(dst, "packed-refs")
        if os.path.exists(p):
            for line in open(p, "rb").read().splitlines():
                if line.startswith((b"#", b"^")) or not line.strip():
                    continue
                v, n = line.split(b" ", 1)
                lp = os.path.join(dst.encode(), n)
                if not os.path.exists(lp):
                    os.makedirs(os.path.dirname(lp), exist_ok=True)
                    with open(lp, "wb") as f:
                        f.write(v + b"\n")
            os.unlink(p)


# ------------------------------------------------------------------------------ query battery
def H(b):
    return hashlib.sha1(b).hexdigest()[:16]


def battery(d, U, commits, live_commits, heads, qrng_seed):
    """answers through a fresh Repo. U: universe of ids (hex bytes); commits: commit ids in U; heads: ref tips."""
    from dulwich.graph import can_fast_forward, find_merge_base
    from dulwich.object_store import MissingObjectFinder, _collect_ancestors, find_shallow, get_depth
    from dulwich.objects import hex_to_sha
    from dulwich.repo import Repo
    rng = random.Random(qrng_seed)
    A = {}
    install_probes()

    def q(key, fn):
        try:
            v = fn()
        except (MemoryError, RecursionError):
            raise
        except Exception as e:
            v = "raises:" + type(e).__name__
        A[key] = v

    r = Repo(d)
    try:
        st = r.object_store
        q("iter", lambda: sorted(x.decode() for x in set(st)))
        for i in U:
            s = i.decode()[:10]
            q("contains/" + s, lambda: i in st)
            q("contains_packed/" + s, lambda: bool(st.contains_packed(i)))
            q("contains_loose/" + s, lambda: bool(st.contains_loose(i)))
            q("get_raw/" + s, lambda: (lambda t: [t[0], H(t[1])])(st.get_raw(i)))
            q("get_raw_bin/" + s, lambda: (lambda t: [t[0], H(t[1])])(st.get_raw(hex_to_sha(i))))
            q("getitem/" + s, lambda: [st[i].type_name.decode(), H(st[i].as_raw_string())])
    finally:
        r.close()
    r = Repo(d)
    try:
        st = r.object_store
        pp = r.parents_provider()
        for c in commits:
            q("parents/" + c.decode()[:10], lambda: [p.decode()[:10] for p in pp.get_parents(c)])
        live = list(live_commits)      # chosen from C git's view, never from the answers under comparison
        hs = [h for h in heads if h in live]
        sample_pairs = [(rng.choice(live), rng.choice(live)) for _ in range(6)] if live else []
        for h in hs[:6]:
            q("depth/" + h.decode()[:10], lambda: get_depth(st, h))
            q("shallow2/" + h.decode()[:10], lambda: [sorted(x.decode()[:10] for x in s) for s in find_shallow(st, [h], 2)])
            q("walk/" + h.decode()[:10], lambda: [e.commit.id.decode()[:10] for e in r.get_walker(include=[h])])
        for a, b in sample_pairs:
            k = a.decode()[:8] + "," + b.decode()[:8]
            q("merge_base/" + k, lambda: sorted(x.decode()[:10] for x in find_merge_base(r, [a, b])))
            q("can_ff/" + k, lambda: can_fast_forward(r, a, b))
            q("ancestors/" + k, lambda: [sorted(x.decode()[:10] for x in s) for s in _collect_ancestors(st, [a], frozenset([b]))])
            q("missing/" + k, lambda: sorted(e[0].decode()[:10] for e in MissingObjectFinder(st, haves=[b], wants=[a])))
            # shallow boundaries (depth-limited transfers): the walk stops at them whatever answers the parents
            sh = frozenset(rng.sample(live, min(len(live), rng.choice([1, 2]))))
            q("ancestors_shallow/" + k, lambda: [sorted(x.decode()[:10] for x in s_) for s_ in _collect_ancestors(st, [a], frozenset(), shallow=sh)])
            q("missing_shallow/" + k, lambda: sorted(e[0].decode()[:10] for e in MissingObjectFinder(st, haves=[], wants=[a], shallow=set(sh))))
            q("missing_shallow_have/" + k, lambda: sorted(e[0].decode()[:10] for e in MissingObjectFinder(st, haves=[b], wants=[a], shallow=set(sh))))
            for prefer in (True, False):
                prov = st.get_reachability_provider(prefer_bitmaps=prefer)
                kk = "%s/%s" % (k, "pref" if prefer else "nopref")
                q("reach_commits/" + kk, lambda: sorted(x.decode()[:10] for x in prov.get_reachable_commits([a], exclude=[b])))
                q("reach_commits1/" + kk, lambda: sorted(x.decode()[:10] for x in prov.get_reachable_commits([a])))
                q("reach_commits_shallow/" + kk, lambda: sorted(x.decode()[:10] for x in prov.get_reachable_commits([a], shallow=set(sh))))
                q("reach_objects/" + kk, lambda: sorted(x.decode()[:10] for x in prov.get_reachable_objects([a], exclude_commits=[b])))
                q("reach_objects1/" + kk, lambda: sorted(x.decode()[:10] for x in prov.get_reachable_objects([a])))
                q("tree_objects/" + kk, lambda: sorted(x.decode()[:10] for x in prov.get_tree_objects([st[a].tree])))
        if hs:
            q("missing_all", lambda: sorted(e[0].decode()[:10] for e in MissingObjectFinder(st, haves=[], wants=hs)))
            if len(hs) > 1:
                q("missing_rest", lambda: sorted(e[0].decode()[:10] for e in MissingObjectFinder(st, haves=hs[:1], wants=hs[1:])))
    finally:
        r.close()
    r = Repo(d)
    try:
        q("refs.as_dict", lambda: sorted((k.decode(), v.decode()) for k, v in r.refs.as_dict().items()))
        q("get_refs", lambda: sorted((k.decode(), v.decode()) for k, v in r.get_refs().items()))
        q("refs.keys", lambda: sorted(k.decode() for k in r.refs.keys()))
        q("symrefs", lambda: sorted((k.decode(), v.decode()) for k, v in r.refs.get_symrefs().items()))
        q("head", lambda: r.head().decode())
        names = A["refs.keys"] if isinstance(A.get("refs.keys"), list) else []
        for n in names + ["refs/heads/absent"]:
            nb = n.encode()
            q("ref/" + n, lambda: (r.refs[nb] or b"").decode())
            q("contains_ref/" + n, lambda: nb in r.refs)
            q("peeled/" + n, lambda: (r.refs.get_peeled(nb) or b"None").decode())
            q("read_ref/" + n, lambda: (r.refs.read_ref(nb) or b"None").decode())
    finally:
        r.close()
    return A


PROBE = {"bitmap_answers": 0, "bitmap_fallbacks": 0, "graph_parent_hits": 0, "midx_hits": 0}


def install_probes():
    """count how often an accelerator actually produced the answer (observability: a check whose accelerators are never consulted
    decides nothing)."""
    if _st.get("probes"):
        return
    _st["probes"] = True
    from dulwich import commit_graph, midx, object_store
    orig = object_store.BitmapReachability._combine_commit_bitmaps

    def combine(self, *a, **kw):
        r = orig(self, *a, **kw)
        PROBE["bitmap_answers" if r is not None else "bitmap_fallbacks"] += 1
        return r
    object_store.BitmapReachability._combine_commit_bitmaps = combine
    og = commit_graph.CommitGraph.get_parents

    def gp(self, *a, **kw):
        r = og(self, *a, **kw)
        if r is not None:
            PROBE["graph_parent_hits"] += 1
        return r
    commit_graph.CommitGraph.get_parents = gp
    om = midx.MultiPackIndex.object_offset

    def oo(self, *a, **kw):
        r = om(self, *a, **kw)
        if r is not None:
            PROBE["midx_hits"] += 1
        return r
    midx.MultiPackIndex.object_offset = oo


def diff_answers(A, B):
    out = []
    for k in sorted(set(A) | set(B)):
        if A.get(k) != B.get(k):
            if k.startswith("peeled/") and "None" in (A.get(k), B.get(k)):
                continue            # get_peeled is documented as a cache query: None = no cached information
            out.append(k)
    return out


def qclass(k):
    return k.split("/")[0]


def build_repo(rng, sc, feats, n=12):
    d = sc.sub("r%d" % rng.randrange(1 << 30))
    shutil.rmtree(d)
    ids, commits, f0 = c05.gen_history(d, rng, rng.randrange(4, n))
    feats |= f0
    if rng.random() < 0.7:
        core.git(["repack", "-dq"], cwd=d)
        extend_history(d, rng, rng.randrange(1, 5))
        if rng.random() < 0.6:
            core.git(["repack", "-dq"], cwd=d)
            feats.add("multi-pack")
    return d


def git_refs(d):
    out = {}
    for line in core.git(["for-each-ref", "--format=%(refname) %(objectname)"], cwd=d).stdout.splitlines():
        n, v = line.split()
        out[n.decode()] = v.decode()
    return out


def run_refops(case):
    """the same sequence of dulwich ref writes on a repository with packed-refs (made stale by the sequence itself) and on a copy
    with the same refs loose: results of every operation and the final ref map (dulwich reopened + C git) must be equal."""
    from dulwich.repo import Repo
    rng = random.Random(case["seed"])
    sc = scratch()
    viol, stats, feats = [], {}, set()
    d = build_repo(rng, sc, feats, 8)
    commits = [l for l in core.git(["rev-list", "--all"], cwd=d).stdout.split()][:5]
    names = [n.encode() for n in git_refs(d) if n.startswith("refs/heads/")][:3] + [b"refs/heads/fresh"]
    w = case.get("writer") or rng.choice(["git", "dulwich"])
    write_accel(d, "packed-refs", w, rng, feats)
    d0 = d + ".plain"
    strip_accel(d, d0, only=["packed-refs"])
    ops = []
    for _ in range(rng.randrange(3, 10)):
        k = rng.choice(["set", "set", "set_if_equals", "set_if_equals_cur", "add_if_new", "remove", "remove_if_equals_cur", "pack"])
        ops.append((k, rng.choice(names), rng.choice(commits), rng.choice(commits)))
    res = []
    for dd in (d, d0):
        r = Repo(dd)
        log = []
        try:
            for k, n, a, b in ops:
                try:
                    if k == "set":
                        r.refs[n] = a
                        out = None
                    elif k == "set_if_equals":
                        out = bool(r.refs.set_if_equals(n, b, a))
                    elif k == "set_if_equals_cur":
                        try:
                            cur = r.refs[n]
                        except KeyError:
                            cur = None
                        out = bool(r.refs.set_if_equals(n, cur, a))
                    elif k == "add_if_new":
                        out = bool(r.refs.add_if_new(n, a))
                    elif k == "remove":
                        out = bool(r.refs.remove_if_equals(n, None))
                    elif k == "remove_if_equals_cur":
                        try:
                            cur = r.refs[n]
                        except KeyError:
                            cur = None
                        out = bool(r.refs.remove_if_equals(n, cur)) if cur else None
                    elif k == "pack":
                        if dd == d:
                            r.refs.pack_refs(all=True)   # only the accelerated side re-packs: packing must be invisible
                        out = None
                except Exception as e:
                    out = "raises:" + type(e).__name__
                try:
                    now = r.refs[n].decode()
                except KeyError:
                    now = None
                log.append([k, n.decode(), out, now])
        finally:
            r.close()
        r = Repo(dd)
        try:
            final = sorted((k.decode(), v.decode()) for k, v in r.refs.as_dict().items())
        finally:
            r.close()
        res.append({"log": log, "final": final, "git": sorted(git_refs(dd).items())})
    stats["refop_steps_compared"] = len(ops)
    stats["queries_compared"] = len(ops) + 2
    A, B = res
    for i, (x, y) in enumerate(zip(A["log"], B["log"])):
        if x != y:
            viol.append({"sig": "C14/refops/packed-refs-by-%s/%s/%s" % (w, x[0], "result-differs" if x[2] != y[2] else "value-read-back-differs"),
                         "step": i, "with": x, "without": y, "ops": [[o[0], o[1].decode(), o[2].decode()[:8], o[3].decode()[:8]] for o in ops]})
            break
    if A["final"] != B["final"] or A["git"] != B["git"]:
        viol.append({"sig": "C14/refops/packed-refs-by-%s/final-refs-differ" % w, "with": core.short(A["final"], 300), "without": core.short(B["final"], 300)})
    if A["final"] != A["git"]:
        pass    # HEAD etc. differ in listing; not judged here (C16)
    shutil.rmtree(d, ignore_errors=True)
    shutil.rmtree(d0, ignore_errors=True)
    return {"viol": viol, "stats": stats, "evaluations": len(ops), "nontrivial": ["refops|" + ",".join(o[0] for o in ops)], "feats": ["refops"]}


def run_live(case):
    """long-lived handles: a Repo is opened and lightly used, the repository is then changed by another process (repack, gc, new
    packs, prune), and the same handle answers lookups.  The answers of the handle on the accelerated repository and on the plain copy
    (same external steps) must be equal."""
    from dulwich.repo import Repo
    rng = random.Random(case["seed"])
    sc = scratch()
    viol, stats, feats = [], {}, set()
    d = build_repo(rng, sc, feats, 10)
    if not pack_bases(d):
        core.git(["repack", "-dq"], cwd=d)
    chosen = case.get("force") or [a for a in ("commit-graph", "midx", "bitmap") if rng.random() < 0.6] or ["midx"]
    writers = {}
    for a in sorted(chosen, key=lambda a: a != "bitmap"):
        w = case.get("writer") or rng.choice(["git", "dulwich"])
        try:
            if write_accel(d, a, w, rng, feats):
                writers[a] = w
        except core.GitError:
            pass
    d0 = d + ".plain"
    strip_accel(d, d0, only=["commit-graph", "midx", "bitmap"])
    U = sorted(c05.all_objects(d)) + [b"%040x" % rng.getrandbits(160)]
    warm = rng.choice(["absent-probe", "one-object", "iterate", "nothing"])
    ext = case.get("ext") or rng.choice(["repack-ad", "repack-ad-keep-accel", "gc", "new-pack", "repack-adb"])
    ext_seed = rng.getrandbits(32)
    res = []
    for dd in (d, d0):
        r = Repo(dd)
        A = {}
        try:
            st = r.object_store
            if warm == "absent-probe":
                _ = U[-1] in st
            elif warm == "one-object":
                _ = st[U[0]]
            elif warm == "iterate":
                _ = len(list(st))
            # external process
            er = random.Random(ext_seed)
            saved = save_accel(dd)
            if ext.startswith("repack-ad"):
                if er.random() < 0.5:
                    extend_history(dd, er, 2, tagp=0)
                core.git(["repack", "-adbq" if ext == "repack-adb" else "-adq"], cwd=dd)
                if ext == "repack-ad-keep-accel":
                    restore_accel(dd, saved, er, set())
            elif ext == "gc":
                core.git(["gc", "-q", "--prune=now"], cwd=dd)
            elif ext == "new-pack":
                extend_history(dd, er, 2, tagp=0)
                core.git(["repack", "-dq"], cwd=dd)
            U2 = sorted(set(U) | set(c05.all_objects(dd)))
            for i in U2:
                s = i.decode()[:10]
                for name, fn in (("contains", lambda: i in st), ("get_raw", lambda: (lambda t: [t[0], H(t[1])])(st.get_raw(i))),
                                 ("contains_packed", lambda: bool(st.contains_packed(i)))):
                    try:
                        A[name + "/" + s] = fn()
                    except (MemoryError, RecursionError):
                        raise
                    except Exception as e:
                        A[name + "/" + s] = "raises:" + type(e).__name__
            try:
                A["iter"] = sorted(x.decode()[:10] for x in set(st))
            except Exception as e:
                A["iter"] = "raises:" + type(e).__name__
            heads = [v.encode() for v in git_refs(dd).values()]
            try:
                from dulwich.object_store import MissingObjectFinder
                cm = [h for h in heads if c05.all_objects(dd).get(h) == b"commit"]
                A["missing_all"] = sorted(e[0].decode()[:10] for e in MissingObjectFinder(st, haves=[], wants=cm))
            except Exception as e:
                A["missing_all"] = "raises:" + type(e).__name__
        finally:
            r.close()
        res.append(A)
    A, B = res
    stats["queries_compared"] = len(set(A) | set(B))
    stats["live_handle_cases"] = 1
    seen = set()
    for k in diff_answers(A, B):
        av, bv = A.get(k), B.get(k)
        how = av if isinstance(av, str) and av.startswith("raises:") else ("answers-where-plain-" + bv if isinstance(bv, str) and bv.startswith("raises:") else "different-answer")
        sig = "C14/live-handle/%s/%s/ext:%s/%s" % (qclass(k), "+".join("%s-by-%s" % (a, writers[a]) for a in sorted(writers)), ext, how)
        if sig not in seen:
            seen.add(sig)
            viol.append({"sig": sig, "query": k, "with": core.short(av, 200), "without": core.short(bv, 200), "warm": warm})
    shutil.rmtree(d, ignore_errors=True)
    shutil.rmtree(d0, ignore_errors=True)
    return {"viol": viol, "stats": stats, "evaluations": stats["queries_compared"],
            "nontrivial": ["live|%s|%s|%s" % ("+".join("%s:%s" % (a, writers[a][0]) for a in sorted(writers)), warm, ext)], "feats": ["live-handle"]}


def run_livebitmap(case):
    """the handle that generated the bitmaps keeps them in memory (bitmaps read back from disk are never consulted on this tree): a
    sequence of reachability / transfer-set queries on that handle against the same sequence on a handle of a bitmap-free copy. The
    order matters (an earlier multi-head query must not change what a later query answers)."""
    from dulwich.object_store import MissingObjectFinder
    from dulwich.repo import Repo
    rng = random.Random(case["seed"])
    sc = scratch()
    viol, stats, feats = [], {}, set()
    install_probes()
    d = build_repo(rng, sc, feats, 12)
    core.git(["repack", "-adq"], cwd=d, extra_cfg=["repack.writeBitmaps=false"])
    for f in os.listdir(packdir(d)):
        if f.endswith((".bitmap", ".rev")):
            os.unlink(os.path.join(packdir(d), f))
    d0 = d + ".plain"
    shutil.copytree(d, d0, symlinks=True)
    now = c05.all_objects(d)
    commits = sorted(i for i, t in now.items() if t == b"commit")
    heads = []
    for line in core.git(["for-each-ref", "--format=%(objectname) %(objecttype)"], cwd=d).stdout.splitlines():
        v, t = line.split()
        if t == b"commit" and v not in heads:
            heads.append(v)
    if len(commits) < 3:
        shutil.rmtree(d, ignore_errors=True)
        shutil.rmtree(d0, ignore_errors=True)
        return {"viol": [], "stats": {}, "evaluations": 0, "nontrivial": []}
    # query script (ids only; the same script runs on both handles)
    script = []
    for _ in range(rng.randrange(4, 12)):
        k = rng.choice(["missing", "missing", "reach_commits", "reach_commits_ex", "reach_objects"])
        a = rng.sample(commits, rng.choice([1, 1, 2, 3]) if len(commits) > 3 else 1)
        b = rng.sample(commits, rng.choice([0, 1, 1, 2, 3]) if len(commits) > 3 else 1)
        script.append((k, a, b))
    interval = rng.choice([None, 1, 1, 2])
    res = []
    for k in PROBE:
        PROBE[k] = 0
    for dd, withbm in ((d, True), (d0, False)):
        r = Repo(dd)
        out = []
        try:
            st = r.object_store
            if withbm:
                st.pack_write_bitmap_hash_cache = rng.random() < 0.5
                st.pack_write_bitmap_lookup_table = rng.random() < 0.5
                try:
                    st.generate_pack_bitmaps({k_: v for k_, v in r.get_refs().items()}, commit_interval=interval)
                except Exception as e:
                    viol.append({"sig": "C14/live-bitmap/generate_pack_bitmaps-raises-%s" % type(e).__name__, "msg": str(e)[:200]})
                    break
            for k, a, b in script:
                try:
                    if k == "missing":
                        v = sorted(e[0].decode()[:10] for e in MissingObjectFinder(st, haves=b, wants=a))
                    else:
                        prov = st.get_reachability_provider()
                        if k == "reach_commits":
                            v = sorted(x.decode()[:10] for x in prov.get_reachable_commits(a))
                        elif k == "reach_commits_ex":
                            v = sorted(x.decode()[:10] for x in prov.get_reachable_commits(a, exclude=b))
                        else:
                            v = sorted(x.decode()[:10] for x in prov.get_reachable_objects(a, exclude_commits=b or None))
                except (MemoryError, RecursionError):
                    raise
                except Exception as e:
                    v = "raises:" + type(e).__name__
                out.append(v)
        finally:
            r.close()
        res.append(out)
    if len(res) == 2:
        stats["live_bitmap_cases"] = 1
        stats["queries_compared"] = len(script)
        for k, v in PROBE.items():
            stats["live_bitmap:" + k] = v
        seen = set()
        for i, ((k, a, b), x, y) in enumerate(zip(script, res[0], res[1])):
            if x != y:
                how = x if isinstance(x, str) else ("answers-where-plain-" + y if isinstance(y, str) else
                                                    ("superset" if set(y) < set(x) else "subset" if set(x) < set(y) else "different-set"))
                first = "first-query" if i == 0 else "after-%s" % script[i - 1][0]
                sig = "C14/live-bitmap/%s/%s/heads=%d,exclude=%d" % (k, how, min(len(a), 2), min(len(b), 2))
                if sig not in seen:
                    seen.add(sig)
                    viol.append({"sig": sig, "step": i, "position": first, "with": core.short(x, 200), "without": core.short(y, 200), "interval": interval})
    shutil.rmtree(d, ignore_errors=True)
    shutil.rmtree(d0, ignore_errors=True)
    return {"viol": viol, "stats": stats, "evaluations": len(script), "nontrivial": ["livebitmap|" + ",".join(x[0] for x in script)], "feats": ["live-bitmap"]}


def run_case(case):
    if case.get("kind") == "livebitmap":
        return run_livebitmap(case)
    if case.get("kind") == "refops":
        return run_refops(case)
    if case.get("kind") == "live":
        return run_live(case)
    rng = random.Random(case["seed"])
    sc = scratch()
    viol, stats, feats = [], {}, set()
    d = sc.sub("r%d" % rng.randrange(1 << 30))
    shutil.rmtree(d)
    n = rng.randrange(4, case.get("n", 14))
    ids, commits, f0 = c05.gen_history(d, rng, n)
    feats |= f0
    # several packs: pack what exists, then add more history, sometimes pack again (incremental)
    if rng.random() < 0.7:
        core.git(["repack", "-dq"], cwd=d)
        extend_history(d, rng, rng.randrange(1, 5))
        if rng.random() < 0.6:
            core.git(["repack", "-dq"], cwd=d)
            feats.add("multi-pack")
        else:
            feats.add("pack+loose")
    U0 = set(c05.all_objects(d))
    # --- accelerators
    chosen = [a for a in ACCELS if rng.random() < 0.6] or [rng.choice(ACCELS)]
    if case.get("force"):
        chosen = case["force"]
    order = list(chosen)
    # bitmap by git repacks everything: do it first so that midx/idx describe the final packs
    order.sort(key=lambda a: {"bitmap": 0, "idx": 1}.get(a, 2))
    writers = {}
    deferred = []
    for a in order:
        w = rng.choice(["git", "dulwich"])
        if case.get("writer"):
            w = case["writer"]
        if a == "idx":
            deferred.append((a, w))     # C git cannot read idx v3: the idx is rewritten after the history was continued
            continue
        try:
            ok = write_accel(d, a, w, rng, feats)
        except core.GitError as e:
            return {"viol": [], "stats": {"inconclusive_writer_failed": 1}, "evaluations": 0, "nontrivial": []}
        except Exception as e:
            viol.append({"sig": "C14/writer-raises/%s-by-%s/%s" % (a, w, type(e).__name__), "msg": str(e)[:200]})
            ok = False
        if ok:
            writers[a] = w
            feats.add("%s-by-%s" % (a, w))
    # --- staleness
    stale = case.get("stale") or rng.choice(["none", "new-loose", "new-pack", "delete-ref", "repack-all", "prune", "foreign", "new-loose+delete-ref"])
    saved = save_accel(d)
    if "new-loose" in stale:
        extend_history(d, rng, rng.randrange(1, 4))
    if stale == "new-pack":
        extend_history(d, rng, rng.randrange(1, 4))
        core.git(["repack", "-dq"], cwd=d)
    if "delete-ref" in stale or stale == "prune":
        brs = core.git(["for-each-ref", "--format=%(refname)"], cwd=d).stdout.split()
        head = core.git(["symbolic-ref", "HEAD"], cwd=d, check=False).stdout.strip()
        cand = [b for b in brs if b != head]
        for b in rng.sample(cand, min(len(cand), rng.choice([1, 2]))):
            core.git(["update-ref", "-d", b.decode()], cwd=d)
    if stale == "repack-all":
        if rng.random() < 0.5:
            extend_history(d, rng, 2)
        core.git(["repack", "-adq"], cwd=d)
        restore_accel(d, saved, rng, feats)
    if stale == "prune":
        core.git(["reflog", "expire", "--expire=now", "--all"], cwd=d)
        core.git(["repack", "-adq"], cwd=d)
        core.git(["prune", "--expire=now"], cwd=d)
        restore_accel(d, saved, rng, feats)
    if stale == "foreign":
        # files built for another repository / another pack
        o = sc.sub("o%d" % rng.randrange(1 << 30))
        shutil.rmtree(o)
        c05.gen_history(o, rng, rng.randrange(4, 10))
        core.git(["repack", "-adbq"], cwd=o)
        core.git(["commit-graph", "write", "--reachable"], cwd=o)
        core.git(["multi-pack-index", "write"], cwd=o)
        if not pack_bases(d):
            core.git(["repack", "-adq"], cwd=d)
        mine = pack_bases(d)
        for rel, data in save_accel(o).items():
            if rel.endswith(".rev"):
                continue
            kind = "bitmap" if rel.endswith(".bitmap") else ("commit-graph" if rel.endswith("commit-graph") else "midx")
            if kind not in chosen and not case.get("force"):
                continue
            p = os.path.join(d, rel) if kind != "bitmap" else os.path.join(packdir(d), mine[0] + ".bitmap")
            os.makedirs(os.path.dirname(p), exist_ok=True)
            if os.path.exists(p):
                os.chmod(p, 0o644)
            with open(p, "wb") as f:
                f.write(data)
            feats.add("foreign-" + kind)
        shutil.rmtree(o, ignore_errors=True)
    # --- universe and queries
    now = c05.all_objects(d)
    U = sorted(U0 | set(now)) + [b"%040x" % rng.getrandbits(160)]
    types = dict(now)
    for i in U0:
        types.setdefault(i, None)
    commits_u = [i for i in U if now.get(i) == b"commit"]
    gone = [i for i in U0 if i not in now]
    if gone:
        feats.add("pruned-objects")
    commits_q = commits_u + gone[:10]
    heads = []
    for line in core.git(["for-each-ref", "--format=%(objectname) %(objecttype)"], cwd=d).stdout.splitlines():
        v, t = line.split()
        if t == b"commit" and v not in heads:
            heads.append(v)
    gl = []
    if commits_u and rng.random() < 0.25:
        # graft points (info/grafts), chosen while C git can still read the repository (an idx v3 rewrite may follow) and written after the
        # acceleration files (C git does not see them: GIT_GRAFT_FILE=/dev/null): a graft replaces the parents of a commit whether or not a
        # commit-graph also knows that commit
        for c in rng.sample(commits_u, min(len(commits_u), rng.choice([1, 2, 3]))):
            anc = [x for x in core.git(["rev-list", c.decode()], cwd=d).stdout.split() if x != c]
            newp = [] if not anc or rng.random() < 0.4 else rng.sample(anc, min(len(anc), rng.choice([1, 1, 2])))
            gl.append(b" ".join([c] + newp) + b"\n")
    for a, w in deferred:
        try:
            if write_accel(d, a, w, rng, feats):
                writers[a] = w
                feats.add("%s-by-%s" % (a, w))
        except Exception as e:
            viol.append({"sig": "C14/writer-raises/%s-by-%s/%s" % (a, w, type(e).__name__), "msg": str(e)[:200]})
    if gl:
        gd = os.path.join(d, "info") if os.path.isdir(os.path.join(d, "objects")) else os.path.join(d, ".git", "info")
        os.makedirs(gd, exist_ok=True)
        with open(os.path.join(gd, "grafts"), "wb") as f:
            f.write(b"".join(gl))
        feats.add("grafts")
    qseed = case["seed"] + "/q"
    for k in PROBE:
        PROBE[k] = 0
    A = battery(d, U, commits_q, commits_u, heads, qseed)
    for k, v in PROBE.items():
        stats["with_accel:" + k] = v
    d0 = d + ".plain"
    strip_accel(d, d0)
    B = battery(d0, U, commits_q, commits_u, heads, qseed)
    stats["queries_compared"] = len(set(A) | set(B))
    stats["queries_answered_without_error"] = sum(1 for v in B.values() if not (isinstance(v, str) and v.startswith("raises:")))
    for k in ("reach_commits1", "missing_all", "merge_base"):
        stats["answers_" + k] = sum(1 for x in B if x.startswith(k))
    # did the accelerators actually get consulted? (observability: files present and parsed)
    stats["accel_files_present"] = len(accel_files(d)) + (1 if os.path.exists(os.path.join(d, "packed-refs")) else 0)
    diffs = diff_answers(A, B)
    if diffs:
        # isolate: remove one kind at a time
        blame = {}
        for a in ACCELS:
            d1 = d + ".minus-" + a
            strip_accel(d, d1, only=[a])
            C = battery(d1, U, commits_q, commits_u, heads, qseed)
            shutil.rmtree(d1, ignore_errors=True)
            for k in diffs:
                if C.get(k) == B.get(k):
                    blame.setdefault(k, []).append(a)
        seen = set()
        for k in diffs:
            who = "+".join(blame.get(k, ["combination"]))
            w = "+".join(sorted(set(writers.get(x, "foreign") for x in blame.get(k, [])))) or "?"
            av, bv = A.get(k), B.get(k)
            if isinstance(av, str) and av.startswith("raises:"):
                how = av
            elif isinstance(bv, str) and bv.startswith("raises:"):
                how = "answers-where-plain-" + bv
            else:
                how = "different-answer"
            sig = "C14/%s/%s-by-%s/%s/%s" % (qclass(k), who, w, "stale:" + stale, how)
            if sig in seen:
                continue
            seen.add(sig)
            viol.append({"sig": sig, "query": k, "with": core.short(av, 300), "without": core.short(bv, 300), "feats": sorted(feats)})
    shutil.rmtree(d, ignore_errors=True)
    shutil.rmtree(d0, ignore_errors=True)
    nt = ["%s|%s|%s" % ("+".join("%s:%s" % (a, writers[a][0]) for a in sorted(writers)), stale, ",".join(sorted(f for f in feats if not f.endswith(("-by-git", "-by-dulwich")))))]
    return {"viol": viol, "stats": stats, "evaluations": stats["queries_compared"], "nontrivial": nt, "feats": sorted(feats)}


def main(ctx):
    n = ctx.budget(260, 4000)
    cases = [{"seed": "%d/%d" % (ctx.seed, i)} for i in range(n)]
    # directed: every accelerator alone x writer x staleness
    k = 0
    for a in ACCELS:
        for w in ("git", "dulwich"):
            for stale in ("none", "new-loose", "new-pack", "delete-ref", "repack-all", "prune", "foreign"):
                for rep in range(ctx.budget(1, 6)):
                    cases.append({"seed": "%d/d/%d" % (ctx.seed, k), "force": [a], "writer": w, "stale": stale})
                    k += 1
    for i in range(ctx.budget(150, 3000)):
        cases.append({"kind": "refops", "seed": "%d/r/%d" % (ctx.seed, i)})
    for i in range(ctx.budget(150, 3000)):
        cases.append({"kind": "live", "seed": "%d/l/%d" % (ctx.seed, i)})
    for i in range(ctx.budget(150, 3000)):
        cases.append({"kind": "livebitmap", "seed": "%d/b/%d" % (ctx.seed, i)})
    ctx.rule = ("random git-built histories (C05 generator: merges, octopus, several roots, tags of all kinds, gitlinks; 1-3 packs + loose) x random "
                "subset of {commit-graph, midx, bitmap (hash cache / lookup table on/off), packed-refs, idx v1/v2/v3} written by C git or dulwich x "
                "staleness {none, new loose commits, new pack, deleted refs, full repack with old files put back, prune with old files put back, "
                "files from another repository/pack}; plus every accelerator alone x writer x staleness. Each case compares ~300-1500 query answers "
                "between the repository and a copy without acceleration data. non-trivial = distinct (accelerator set with writers, staleness, features). Two further case "
                "kinds: (refops) the same random sequence of dulwich ref writes (set/set_if_equals/add_if_new/remove, values from a 5-commit pool, "
                "re-packing only on the accelerated side) on a repository with packed-refs and on a loose copy; (live) a long-lived Repo handle that "
                "is warmed up, then sees an external repack/gc/new pack, then answers lookups, with vs without commit-graph/midx/bitmap.")
    ctx.assumptions = ["a query that raises with a stale/foreign file present but answers without it is reported (separate signature class 'raises:*')",
                       "contains_packed/contains_loose are compared too: removing acceleration files does not move objects",
                       "'without packed-refs' = the same refs exploded into loose files"]

    def on_result(case, out):
        if out["status"] != "ok":
            if out["status"] == "timeout":
                ctx.inconc("worker timeout: %s" % case)
            else:
                ctx.violation("C14/harness-%s/%s" % (out["status"], out.get("exc")), case, out)
            return
        res = out["result"]
        ctx.merge(res)
        for f in res.get("feats", []):
            ctx.count("feat:" + f)
        for v in res.get("viol", []):
            ctx.violation(v["sig"], case, v)
        if res.get("feats") and ctx.stats["sampled"] < 4:
            ctx.sample({"case": case, "feats": res["feats"]}, "case")
            ctx.count("sampled")

    pool.pmap("vt.checks.c14", cases, timeout=600, on_result=on_result, ext_table=getattr(ctx, "ext_table", None))
    if ctx.stats["queries_compared"] < 10000:
        return "too few queries compared (%d)" % ctx.stats["queries_compared"]
    return None
