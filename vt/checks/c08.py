"""C08 — ref updates are atomic compare-and-swap; concurrent commits are never lost.

Histories of ref operations by 2-3 actors (threads with their own DiskRefsContainer / Repo, interleaved at
system-call granularity by vt.mon.sched over vt.mon.fsint) are recorded at the client boundary (call before
the actor's first step, return after its last, logical clock = scheduler step) and checked for
linearizability against a sequential ref map by exhaustive search over orders respecting real-time
precedence.  Unique values make every read identify the write it saw.  Commit oracle: every commit id
returned without exception must be an ancestor of (or equal to) the final branch tip.
"""
import itertools
import os
import random
import shutil

from vt import core, pool
from vt.mon import fsint, sched

LEVEL = "exploration"
_st = {}
R = b"refs/heads/a"
OTHER = b"refs/tags/t"
ZERO = b"0" * 40


def val(i):
    return (b"%02x" % i) * 20


def hot(path):
    return (path.startswith(".git/refs") or path.startswith(".git/packed-refs") or path == ".git/HEAD" or path.endswith(".lock")
            or path.startswith("refs") or path.startswith("packed-refs") or path == "HEAD")


# ------------------------------------------------------------------------------ sequential model
def model_apply(state, op):
    """state: dict name->value. op: dict(kind, name, old, new). -> (result, new_state)"""
    k = op["kind"]
    n = op.get("name")
    if n == b"HEAD":
        n = R    # HEAD is a symref to R in every scenario
    s = dict(state)
    if k == "set_if_equals":
        cur = s.get(n)
        if op["old"] is not None and (cur or ZERO) != op["old"]:
            return False, s
        s[n] = op["new"]
        return True, s
    if k == "add_if_new":
        if s.get(n) is not None:
            return False, s
        s[n] = op["new"]
        return True, s
    if k == "remove_if_equals":
        cur = s.get(n)
        if op["old"] is not None and (cur or ZERO) != op["old"]:
            return False, s
        s.pop(n, None)
        return True, s
    if k == "set":
        s[n] = op["new"]
        return None, s
    if k == "delete":
        s.pop(n, None)
        return None, s
    if k == "read":
        v = s.get(n)
        if v is not None and v.startswith(b"ref: "):
            v = s.get(v[5:])
        return v, s
    if k == "set_symbolic_ref":
        s[n] = b"ref: " + op["target"]
        return None, s
    if k in ("pack_refs", "noop"):
        return None, s
    raise ValueError(k)


def linearizable(initial, ops, final):
    """ops: list of dict with call, ret (logical times), actor, seq, result, raised. Exhaustive search."""
    n = len(ops)
    # precedence: a before b if same actor and earlier, or a.ret < b.call
    prec = [[False] * n for _ in range(n)]
    for i, a in enumerate(ops):
        for j, b in enumerate(ops):
            if i != j and ((a["actor"] == b["actor"] and a["seq"] < b["seq"]) or a["ret"] < b["call"]):
                prec[i][j] = True

    def rec(done, state):
        if len(done) == n:
            return final is None or state == final
        for i in range(n):
            if i in done:
                continue
            if any(prec[j][i] and j not in done for j in range(n)):
                continue
            op = ops[i]
            if op.get("raised"):
                # an operation that raised must linearise as a no-op
                if rec(done | {i}, state):
                    return True
                continue
            res, ns = model_apply(state, op)
            if op["kind"] in ("set", "delete", "pack_refs", "noop", "set_symbolic_ref") or res == op["result"]:
                if rec(done | {i}, ns):
                    return True
        return False
    return rec(frozenset(), dict(initial))


def diagnose(initial, ops, final):
    """Mechanism signature for a non-linearizable history (never uses concrete values)."""
    kinds = sorted(set(o["kind"] for o in ops))
    written = {o["new"] for o in ops if o.get("new")} | set(initial.values())
    for o in ops:
        if o["kind"] == "read" and not o.get("raised"):
            nm = R if o["name"] == b"HEAD" else o["name"]
            if o["result"] is None and nm in initial and not any(x["kind"] in ("delete", "remove_if_equals") and (x["name"] in (nm, b"HEAD")) for x in ops):
                return ("listing-omits" if o.get("via") else "reader-saw") + "-ref-missing-although-it-exists-throughout"
            if o["result"] is not None and o["result"] not in written:
                return "reader-saw-value-never-written"
    succ_sets = [o for o in ops if o["kind"] == "set_if_equals" and o["result"] is True and o["old"] is not None]
    if len(succ_sets) >= 2 and len(set(o["old"] for o in succ_sets)) == 1 and len(set(o["name"] for o in succ_sets)) == 1:
        return "two-compare-and-swaps-from-the-same-old-value-both-succeeded"
    adds = [o for o in ops if o["kind"] == "add_if_new" and o["result"] is True]
    if len(adds) >= 2:
        return "two-add_if_new-both-succeeded"
    if final is not None:
        for nm in set(final) | set(initial):
            fv = final.get(nm)
            if fv is not None and fv not in written:
                return "final-value-never-written"
        if any(o["kind"] in ("delete", "remove_if_equals") and o.get("result") in (True, None) and not o.get("raised") for o in ops) and \
                any(final.get(nm) is not None and final.get(nm) == initial.get(nm) for nm in initial):
            return "deleted-ref-came-back"
        if any(o["kind"] in ("set", "set_if_equals") and o.get("result") in (True, None) and not o.get("raised") for o in ops) and \
                any(final.get(nm) == initial.get(nm) for nm in initial):
            return "acknowledged-update-lost"
    return "non-linearizable"


# ------------------------------------------------------------------------------ scenario machinery
def write_initial(gitdir, state):
    """state: dict name -> (value, where) where in {'loose','packed','both'}"""
    os.makedirs(os.path.join(gitdir, "refs", "heads"), exist_ok=True)
    os.makedirs(os.path.join(gitdir, "refs", "tags"), exist_ok=True)
    os.makedirs(os.path.join(gitdir, "objects"), exist_ok=True)
    with open(os.path.join(gitdir, "HEAD"), "wb") as f:
        f.write(b"ref: " + R + b"\n")
    packed = []
    for name, (v, where) in state.items():
        if where in ("loose", "both"):
            with open(os.path.join(gitdir, os.fsdecode(name)), "wb") as f:
                f.write(v + b"\n")
        if where in ("packed", "both"):
            packed.append((name, v if where == "packed" else val(0xEE)))  # 'both': stale packed value shadowed by the loose one
    if packed:
        with open(os.path.join(gitdir, "packed-refs"), "wb") as f:
            f.write(b"# pack-refs with: peeled fully-peeled sorted \n")
            for name, v in sorted(packed):
                f.write(v + b" " + name + b"\n")


def make_ops(spec, initial, counter):
    """Expand an actor program spec into op dicts with unique new values."""
    ops = []
    cur = initial.get(R, (None, None))[0]
    for s in spec:
        counter[0] += 1
        new = val(counter[0])
        if s == "cas":
            ops.append({"kind": "set_if_equals", "name": R, "old": cur or ZERO, "new": new})
        elif s == "cas-head":
            ops.append({"kind": "set_if_equals", "name": b"HEAD", "old": cur or ZERO, "new": new})
        elif s == "cas-stale":
            ops.append({"kind": "set_if_equals", "name": R, "old": val(0xDD), "new": new})
        elif s == "add":
            ops.append({"kind": "add_if_new", "name": R, "new": new})
        elif s == "rm":
            ops.append({"kind": "remove_if_equals", "name": R, "old": cur or ZERO})
        elif s == "set":
            ops.append({"kind": "set", "name": R, "new": new})
        elif s == "del":
            ops.append({"kind": "delete", "name": R})
        elif s == "pack":
            ops.append({"kind": "pack_refs", "name": None})
        elif s == "read":
            ops.append({"kind": "read", "name": R})
        elif s == "read-head":
            ops.append({"kind": "read", "name": b"HEAD"})
        elif s == "read-other":
            ops.append({"kind": "read", "name": OTHER})
        elif s == "set-other":
            ops.append({"kind": "set", "name": OTHER, "new": new})
        elif s == "list":
            ops.append({"kind": "list", "name": None})
        elif s == "rm-other":
            ops.append({"kind": "remove_if_equals", "name": OTHER, "old": initial.get(OTHER, (None, None))[0] or ZERO})
        elif s == "symref-other":
            ops.append({"kind": "set_symbolic_ref", "name": OTHER, "target": R})
        else:
            raise ValueError(s)
    return ops


def do_op(refs, op):
    k = op["kind"]
    if k == "set_if_equals":
        return refs.set_if_equals(op["name"], op["old"], op["new"])
    if k == "add_if_new":
        return refs.add_if_new(op["name"], op["new"])
    if k == "remove_if_equals":
        return refs.remove_if_equals(op["name"], op["old"])
    if k == "set":
        refs[op["name"]] = op["new"]
        return None
    if k == "delete":
        del refs[op["name"]]
        return None
    if k == "pack_refs":
        refs.pack_refs(all=True)
        return None
    if k == "read":
        try:
            return refs[op["name"]]
        except KeyError:
            return None
    if k == "list":
        return dict(refs.as_dict())
    if k == "set_symbolic_ref":
        refs.set_symbolic_ref(op["name"], op["target"])
        return None
    raise ValueError(k)


def run_refs(case):
    from dulwich.refs import DiskRefsContainer
    rng = random.Random(case["seed"])
    if "scratch" not in _st:
        _st["scratch"] = core.Scratch("c08-")
    base = _st["scratch"].sub("s%d" % rng.randrange(10 ** 9))
    initial_spec = {}
    if case["init"] != "absent":
        initial_spec[R] = (val(0xA0), case["init"])
    initial_spec[OTHER] = (val(0xB0) if not case.get("other_same_value") else val(0xA0), case.get("init_other", "packed"))
    initial = {n: v for n, (v, w) in initial_spec.items()}
    viol, stats = [], {"schedules": 0, "inconclusive_runs": 0, "histories_checked": 0}
    runno = [0]
    interleavings = 0
    sample = None
    outcomes = set()

    def make_run(prefix):
        runno[0] += 1
        root = os.path.join(base, "r%d" % runno[0])
        os.makedirs(root)
        write_initial(root, initial_spec)
        layer = fsint.Layer(root, hot=hot)
        counter = [0]
        history = []
        progs = {}
        for i, spec in enumerate(case["actors"]):
            progs["P%d" % i] = make_ops(spec, initial_spec, counter)
        holder = {}

        def mk(name, ops):
            def body():
                refs = DiskRefsContainer(root)
                for seq, op in enumerate(ops):
                    rec = dict(op, actor=name, seq=seq, call=len(holder["run"].trace))
                    try:
                        rec["result"] = do_op(refs, op)
                    except Exception as e:
                        rec["raised"] = type(e).__name__
                        rec["result"] = None
                    rec["ret"] = len(holder["run"].trace)
                    if op["kind"] == "list":
                        # a listing is not promised to be a snapshot across names: it is checked per key, as a read of each name
                        listed = rec["result"] if isinstance(rec["result"], dict) else {}
                        for j, nm in enumerate((R, OTHER)):
                            history.append(dict(rec, kind="read", name=nm, seq=seq + 0.25 * (j + 1), result=listed.get(nm), via="listing"))
                        continue
                    history.append(rec)
            return body
        actors = {n: mk(n, ops) for n, ops in progs.items()}
        fsint.install(layer)
        try:
            run = sched.Run(layer, actors, prefix=prefix)
            holder["run"] = run
            run.execute()
        finally:
            fsint.uninstall()
        run.history = history
        run.root = root
        # final state through a fresh container (new process view)
        fin = DiskRefsContainer(root)
        run.final = {}
        for nm in (R, OTHER):
            try:
                run.final[nm] = fin[nm]
            except KeyError:
                pass
        for nm, tgt in fin.get_symrefs().items():
            if nm in (R, OTHER):
                run.final[nm] = b"ref: " + tgt       # the model keeps symbolic refs as such: packing must not turn one into a direct ref
        return run

    for kind, prefix, run in sched.explore(make_run, case["max_runs"], case.get("bound", 2), rng):
        if kind == "end":
            stats["exploration"] = run
            break
        if kind == "inconclusive":
            stats["inconclusive_runs"] += 1
            continue
        stats["schedules"] += 1
        interleavings += 1
        for st in run.actors.values():
            if st.exc is not None:
                viol.append({"sig": "C08/refs/actor-harness-error-%s" % type(st.exc).__name__, "msg": str(st.exc)[:100]})
        ops = run.history
        stats["histories_checked"] += 1
        ok = linearizable(initial, ops, run.final)
        outcomes.add(tuple(sorted((o["actor"], o["seq"], repr(o["result"])[:12], o.get("raised")) for o in ops)))
        if not ok:
            sig = diagnose(initial, ops, run.final)
            viol.append({"sig": "C08/refs/%s/%s/init=%s" % (sig, "+".join(sorted(set("|".join(a) for a in case["actors"]))), case["init"]),
                         "schedule": run.choices(), "history": [{k: (v.decode() if isinstance(v, bytes) else v) for k, v in o.items()} for o in ops],
                         "final": {k.decode(): v.decode() for k, v in run.final.items()},
                         "events": [(e["actor"], e["op"], e["path"]) for e in run.layer.log if e.get("hot")][:60]})
        if sample is None and len(set(run.choices())) > 1:
            sample = {"schedule": run.choices(), "history": [{k: (v.decode() if isinstance(v, bytes) else v) for k, v in o.items()} for o in ops]}
        shutil.rmtree(run.root, ignore_errors=True)
        if len(viol) > 30:
            break
    shutil.rmtree(base, ignore_errors=True)
    seen, out = set(), []
    for v in viol:
        if v["sig"] not in seen:
            seen.add(v["sig"])
            out.append(v)
    name = "%s/%s" % ("+".join("|".join(a) for a in case["actors"]), case["init"])
    return {"viol": out, "stats": {k: v for k, v in stats.items() if isinstance(v, int)}, "exploration": stats.get("exploration"),
            "nontrivial": ["refs:%s:%d" % (name, interleavings)] + ["out:%s:%d" % (name, i) for i in range(min(len(outcomes), 30))],
            "evaluations": stats["schedules"], "sample": sample, "scenario": name, "n_interleavings": interleavings, "n_outcomes": len(outcomes)}


# ------------------------------------------------------------------------------ commits
def run_commits(case):
    """Actors commit on the same branch at once (work-tree API / in-memory API); every commit reported successful must be an
    ancestor of (or equal to) the final tip."""
    from dulwich.objects import Commit
    from dulwich.repo import Repo
    rng = random.Random(case["seed"])
    if "scratch" not in _st:
        _st["scratch"] = core.Scratch("c08-")
    if "ctmpl" not in _st:
        d = _st["scratch"].sub("ctmpl")
        core.git(["init", "-q", d])
        with open(os.path.join(d, "f"), "w") as f:
            f.write("x")
        core.git(["add", "f"], cwd=d)
        core.git(["commit", "-q", "-m", "base"], cwd=d)
        core.git(["config", "gc.auto", "0"], cwd=d)
        _st["ctmpl"] = d
        _st["ctmpl_unborn"] = _st["scratch"].sub("ctmplu")
        core.git(["init", "-q", _st["ctmpl_unborn"]])
    tmpl = _st["ctmpl_unborn"] if case.get("unborn") else _st["ctmpl"]
    base = _st["scratch"].sub("c%d" % rng.randrange(10 ** 9))
    viol, stats = [], {"schedules": 0, "inconclusive_runs": 0, "commit_histories": 0}
    runno = [0]
    sample = None
    n_inter = 0

    def chot(path):
        return hot(path)

    def make_run(prefix):
        runno[0] += 1
        root = os.path.join(base, "r%d" % runno[0])
        shutil.copytree(tmpl, root, symlinks=True)
        layer = fsint.Layer(root, hot=chot)
        results = {}

        def mk(name, api):
            def body():
                r = Repo(root)
                try:
                    try:
                        if api == "worktree":
                            cid = r.get_worktree().commit(message=b"by " + name.encode(), committer=b"C <c@d>", author=b"A <a@b>",
                                                          commit_timestamp=1700000000, commit_timezone=0, author_timestamp=1700000000, author_timezone=0)
                        else:
                            cid = r.do_commit(message=b"by " + name.encode(), committer=b"C <c@d>", author=b"A <a@b>",
                                              commit_timestamp=1700000000, commit_timezone=0, author_timestamp=1700000000, author_timezone=0)
                        results[name] = ("ok", cid)
                    except Exception as e:
                        results[name] = ("raised", type(e).__name__)
                finally:
                    r.close()
            return body
        actors = {"P%d" % i: mk("P%d" % i, api) for i, api in enumerate(case["apis"])}
        fsint.install(layer)
        try:
            run = sched.Run(layer, actors, prefix=prefix, step_cap=20000)
            run.execute()
        finally:
            fsint.uninstall()
        run.results = results
        run.root = root
        return run

    for kind, prefix, run in sched.explore(make_run, case["max_runs"], case.get("bound", 2), rng):
        if kind == "end":
            stats["exploration"] = run
            break
        if kind == "inconclusive":
            stats["inconclusive_runs"] += 1
            continue
        stats["schedules"] += 1
        n_inter += 1
        stats["commit_histories"] += 1
        r = Repo(run.root)
        try:
            try:
                tip = r.refs[b"HEAD"]
            except KeyError:
                tip = None
            anc = set()
            todo = [tip] if tip else []
            while todo:
                c = todo.pop()
                if c in anc:
                    continue
                anc.add(c)
                try:
                    todo.extend(r[c].parents)
                except KeyError:
                    viol.append({"sig": "C08/commit/branch-history-has-missing-commit"})
            oks = [v[1] for v in run.results.values() if v[0] == "ok"]
            lost = [c for c in oks if c not in anc]
            if lost:
                viol.append({"sig": "C08/commit/successful-commit-not-in-final-history/%s%s" % ("+".join(sorted(case["apis"])), "/unborn" if case.get("unborn") else ""),
                             "schedule": run.choices(), "results": {k: (v[0], v[1].decode() if isinstance(v[1], bytes) else v[1]) for k, v in run.results.items()},
                             "events": [(e["actor"], e["op"], e["path"]) for e in run.layer.log if e.get("hot")][:80]})
            for name, st in run.actors.items():
                if st.exc is not None:
                    viol.append({"sig": "C08/commit/actor-harness-error-%s" % type(st.exc).__name__, "msg": str(st.exc)[:100]})
            if sample is None and len(set(run.choices())) > 1:
                sample = {"schedule": run.choices()[:60], "results": {k: v[0] for k, v in run.results.items()}}
        finally:
            r.close()
        shutil.rmtree(run.root, ignore_errors=True)
        if len(viol) > 10:
            break
    shutil.rmtree(base, ignore_errors=True)
    seen, out = set(), []
    for v in viol:
        if v["sig"] not in seen:
            seen.add(v["sig"])
            out.append(v)
    name = "commit:%s%s" % ("+".join(case["apis"]), ":unborn" if case.get("unborn") else "")
    return {"viol": out, "stats": {k: v for k, v in stats.items() if isinstance(v, int)}, "exploration": stats.get("exploration"),
            "nontrivial": ["%s:%d" % (name, i) for i in range(min(n_inter, 50))], "evaluations": stats["schedules"], "sample": sample,
            "scenario": name, "n_interleavings": n_inter}


def worker_exit():
    if "scratch" in _st:
        _st["scratch"].cleanup()


def run_case(case):
    return {"refs": run_refs, "commits": run_commits}[case["kind"]](case)


WRITERS = ["cas", "cas-head", "cas-stale", "add", "rm", "set", "del", "pack"]
READERS = ["read", "read-head", "read-other"]


def main(ctx):
    cases = []
    inits = ["loose", "packed", "both", "absent"]
    pairs = []
    for a, b in itertools.combinations_with_replacement(WRITERS, 2):
        pairs.append([[a], [b]])
    for w in WRITERS:
        for r in READERS:
            pairs.append([[w], [r]])
    for w in WRITERS + ["set-other"]:
        pairs.append([[w], ["list"]])
    pairs += [[["pack"], ["list", "list"]], [["pack", "set"], ["list"]]]
    pairs += [[["cas", "read"], ["cas"]], [["pack"], ["set", "read"]], [["rm"], ["add", "read"]], [["pack"], ["set-other"]], [["pack"], ["read-other", "read"]]]
    rng = ctx.sub_rng("gen")
    for acts in pairs:
        for init in inits:
            cases.append({"kind": "refs", "seed": "%d/%s/%s" % (ctx.seed, acts, init), "actors": acts, "init": init,
                          "max_runs": ctx.budget(250, 4000), "bound": 2 if not ctx.thorough else 3})
    for acts in ([["pack"], ["symref-other"]], [["pack"], ["symref-other", "read-other"]], [["pack", "read-other"], ["symref-other"]]):
        for init in ("loose", "both", "packed"):
            for io in ("loose", "both"):
                cases.append({"kind": "refs", "seed": "%d/sym/%s/%s/%s" % (ctx.seed, acts, init, io), "actors": acts, "init": init, "init_other": io,
                              "other_same_value": True, "max_runs": ctx.budget(300, 4000), "bound": 2 if not ctx.thorough else 3})
    # one handle rewrites packed-refs for another ref and then acts on R from what it remembers of that file, while a second
    # process changes R's packed entry in between (caches tagged with the wrong file generation)
    for acts in ([["rm-other", "cas"], ["rm"]], [["rm-other", "read"], ["rm"]], [["rm-other", "add"], ["rm"]], [["rm-other", "cas"], ["cas"]],
                 [["rm-other", "list"], ["rm"]], [["read", "rm-other", "cas"], ["rm"]]):
        for init in ("packed", "both"):
            cases.append({"kind": "refs", "seed": "%d/rmo/%s/%s" % (ctx.seed, acts, init), "actors": acts, "init": init, "init_other": "packed",
                          "max_runs": ctx.budget(300, 4000), "bound": 2 if not ctx.thorough else 3})
    triples = [[["cas"], ["cas"], ["cas"]], [["pack"], ["set"], ["read"]], [["rm"], ["pack"], ["read"]], [["add"], ["add"], ["pack"]], [["cas"], ["pack"], ["rm"]]]
    for acts in triples:
        for init in ("loose", "both"):
            cases.append({"kind": "refs", "seed": "%d/%s/%s" % (ctx.seed, acts, init), "actors": acts, "init": init,
                          "max_runs": ctx.budget(400, 6000), "bound": 2})
    for apis, unborn in ((["worktree", "worktree"], False), (["worktree", "memory"], False), (["memory", "memory"], False), (["worktree", "worktree"], True),
                         (["worktree", "worktree", "worktree"], False)):
        cases.append({"kind": "commits", "seed": "%d/c/%s/%s" % (ctx.seed, apis, unborn), "apis": apis, "unborn": unborn,
                      "max_runs": ctx.budget(250, 3000), "bound": 2})
    ctx.rule = ("actor pairs drawn from {cas, cas via HEAD, stale cas, add_if_new, remove_if_equals, unconditional set/delete, pack_refs, read, read via "
                "HEAD, read of another ref, listing (as_dict, checked per key)} x initial state of the ref {loose, packed, both, absent}: all schedules with <=2 preemptions (DFS at "
                "interposed-call granularity on ref paths), 5 triples, commit races through WorkTree.commit / do_commit. non-trivial = "
                "distinct interleaving / distinct outcome vector per scenario.")
    ctx.assumptions = ["an operation that raised must linearise as a no-op", "multi-key reads are checked per key", "actors are threads with separate "
                       "container objects sharing only the directory; yield points are interposed calls on refs/, HEAD, packed-refs and *.lock"]
    explored = []
    tot = [0, 0]

    def on_result(case, out):
        if out["status"] != "ok":
            if out["status"] == "timeout":
                ctx.inconc("timeout %s" % case.get("actors", case.get("apis")))
            else:
                ctx.violation("C08/%s/harness-%s/%s" % (case["kind"], out["status"], out.get("exc")), case, out)
            return
        res = out["result"]
        ctx.merge(res)
        for v in res.get("viol", []):
            ctx.violation(v["sig"], case, v)
        if res.get("sample"):
            ctx.sample(res["sample"], case["kind"])
        ex = res.get("exploration") or {}
        explored.append([res.get("scenario"), res["stats"].get("schedules"), bool(ex.get("exhausted")), res.get("n_outcomes")])
        tot[0] += res.get("n_interleavings", 0)

    pool.pmap("vt.checks.c08", cases, timeout=1800, on_result=on_result)
    ctx.info["scenarios"] = len(explored)
    ctx.info["distinct_interleavings"] = tot[0]
    ctx.info["scenarios_exhausted_within_bound"] = sum(1 for e in explored if e[2])
    ctx.info["exploration_per_scenario_sample"] = explored[:40]
    if not ctx.stats["histories_checked"] or not ctx.stats["commit_histories"]:
        return "no history checked"
    return None
