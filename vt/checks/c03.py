"""C03 — delta codec: apply(create(b,t),b)=t for every encoder x decoder; hostile deltas fail cleanly.

Part A (codec): encoders {python _create_delta_py, rust create_delta, C git pack-objects} x decoders
  {python apply_delta, rust apply_delta, C git index-pack}.  The git legs go through packs written /
  parsed by the independent vt.ref.packfmt.
Part B (hostile): every byte string offered as delta runs in a sandboxed worker against both dulwich
  decoders; oracle = vt.ref.packfmt.strict_apply_delta (git patch-delta.c semantics) + lenient op tracer;
  a *kernel-enforced allocation budget* (RLIMIT_AS lowered around each call to current VmSize +
  64 MiB + 32*(|base|+|delta|+P), P = bytes the ops can really produce) turns out-of-proportion
  allocations into MemoryError / abort, which the pool observes.
"""
import itertools
import os
import random
import resource
import subprocess

from vt import core, pool
from vt.ref import packfmt

LEVEL = "exploration"
ALPHA = [0x00, 0x01, 0x02, 0x05, 0x7F, 0x80, 0x81, 0x90, 0x91, 0xB0, 0xFF]
BASES = {"e": b"", "1": b"x", "5": b"abcde", "big": None}
_state = {}


def base_bytes(name):
    if name == "big":
        if "big" not in _state:
            r = random.Random(7)
            _state["big"] = bytes(r.randrange(256) for _ in range(70000))
        return _state["big"]
    if name.startswith("hex:"):
        return bytes.fromhex(name[4:])
    if name.startswith("rnd:"):
        _, seed, n = name.split(":")
        r = random.Random(int(seed))
        return bytes(r.randrange(256) for _ in range(int(n)))
    return BASES[name]


def worker_init():
    import dulwich.pack as P
    from dulwich.errors import ApplyDeltaError
    _state["ApplyDeltaError"] = ApplyDeltaError
    # python twin: the function body defined in pack.py; rust twin: what the import-time substitution installed
    src = open(P.__file__.replace(".pyc", ".py")).read()
    _state["rust_loaded"] = P.apply_delta.__module__ != "dulwich.pack" if hasattr(P.apply_delta, "__module__") else True
    try:
        import dulwich._pack as RP
        _state["rs_apply"] = RP.apply_delta
        _state["rs_create"] = getattr(RP, "create_delta", None)
    except ImportError:
        _state["rs_apply"] = None
        _state["rs_create"] = None
    # pure python versions: re-exec the module source with the extension blocked
    import importlib.util
    import sys
    saved = {k: sys.modules.get(k) for k in ("dulwich._pack",)}
    sys.modules["dulwich._pack"] = None  # makes `from dulwich._pack import` raise ImportError
    try:
        spec = importlib.util.spec_from_file_location("dulwich_pack_pure", P.__file__)
        m = importlib.util.module_from_spec(spec)
        m.__package__ = "dulwich"
        sys.modules["dulwich_pack_pure"] = m
        spec.loader.exec_module(m)
    finally:
        for k, v in saved.items():
            if v is None:
                sys.modules.pop(k, None)
            else:
                sys.modules[k] = v
    _state["py_apply"] = m.apply_delta
    _state["py_create"] = m._create_delta_py
    _state["pack_apply"] = P.apply_delta
    _state["pack_create"] = P.create_delta
    _state["P"] = P
    _state["scratch"] = core.Scratch("c03-")


def worker_exit():
    if "scratch" in _state:
        _state["scratch"].cleanup()


def vmsize():
    with open("/proc/self/statm") as f:
        return int(f.read().split()[0]) * 4096


def call_budgeted(fn, base, delta, budget):
    """Run fn(base, delta) with RLIMIT_AS = VmSize + budget. -> (kind, value)"""
    soft, hard = resource.getrlimit(resource.RLIMIT_AS)
    lim = vmsize() + budget
    resource.setrlimit(resource.RLIMIT_AS, (lim, hard))
    try:
        r = fn(base, delta)
        out = b"".join(r) if not isinstance(r, bytes) else r
        return "ok", out
    except _state["ApplyDeltaError"] as e:
        return "delta-error", str(e)[:80]
    except MemoryError:
        return "MemoryError", None
    except RecursionError:
        return "RecursionError", None
    except Exception as e:
        return "exc:" + type(e).__name__, str(e)[:120]
    except BaseException as e:
        return "base-exc:" + type(e).__name__, str(e)[:160]
    finally:
        resource.setrlimit(resource.RLIMIT_AS, (soft, hard))


def judge(dec, kind, val, base, delta, tr, strict):
    """-> signature fragment or None"""
    if kind == "ok":
        if strict[0] == "ok":
            if val != strict[1]:
                return "wrong-output"
            return None
        # reference rejects: the statement still allows output of declared length composed of slices/inserts;
        # the lenient tracer says whether the ops can produce exactly the declared size
        if tr["dst"] is None or len(val) != tr["dst"]:
            return "returned-wrong-length"
        # accepted although git's patch-delta rejects (an invalid op was skipped): allowed by the statement as long as
        # the output has the declared length and is a prefix-concatenation of the valid ops' slices and literals
        lo = packfmt.lenient_output(base, delta)
        if lo is not None and not lo.startswith(val):
            return "output-not-composed-of-base-slices-and-literals"
        return "LENIENT"
    if kind == "delta-error":
        if strict[0] == "ok":
            return "valid-delta-rejected"
        return None
    if kind == "MemoryError":
        return "allocation-out-of-proportion"
    if kind.startswith("base-exc:"):
        return "panic-or-base-exception/" + kind[9:]
    return "wrong-exception-class/" + kind.split(":", 1)[-1]


def hdr_class(delta):
    """coarse mechanism class of the header for signatures"""
    n = 0
    i = 0
    parts = []
    for _ in range(2):
        k = 0
        while i < len(delta) and delta[i] & 0x80:
            i += 1
            k += 1
        i += 1
        k += 1
        parts.append(k)
    m = max(parts)
    return "size-varint>9bytes" if m > 9 else "size-varint>=5bytes" if m >= 5 else "small-header"


def run_hostile(case):
    viol, stats, nontriv = [], {}, set()
    if "py_apply" not in _state:
        worker_init()
    decs = [("python", _state["py_apply"])]
    if _state["rs_apply"] is not None and not case.get("python_only"):
        decs.append(("rust", _state["rs_apply"]))
    items = case["items"]
    for bname, dhex in items:
        base = base_bytes(bname)
        delta = bytes.fromhex(dhex)
        tr = packfmt.trace_delta(len(base), delta, cap=1 << 34)
        try:
            strict = ("ok", packfmt.strict_apply_delta(base, delta)) if (tr["dst"] is not None and tr["dst"] < (1 << 31)) else ("reject", None)
        except packfmt.DeltaError as e:
            strict = ("reject", str(e))
        P = min(tr["dst"] or 0, tr["produced"])
        budget = (64 << 20) + 32 * (len(base) + len(delta) + P)
        for dname, fn in decs:
            kind, val = call_budgeted(fn, base, delta, budget)
            stats["calls_" + dname] = stats.get("calls_" + dname, 0) + 1
            stats["outcome_" + kind.split(":")[0]] = stats.get("outcome_" + kind.split(":")[0], 0) + 1
            sig = judge(dname, kind, val, base, delta, tr, strict)
            if sig == "LENIENT":
                stats["accepted_where_git_rejects_" + dname] = stats.get("accepted_where_git_rejects_" + dname, 0) + 1
                sig = None
            if sig:
                viol.append({"sig": "C03/hostile/%s/%s/%s" % (dname, sig, hdr_class(delta)), "base": bname,
                             "delta": dhex[:200], "delta_len": len(delta), "declared": str(tr["dst"]), "producible": tr["produced"],
                             "outcome": kind, "msg": val if isinstance(val, str) else None})
        nontriv.add("%s:%s:%s" % (bname[:3], strict[0], hdr_class(delta)) + ":" + str(min(len(delta), 12)))
    return {"viol": viol, "stats": stats, "nontrivial": sorted(nontriv), "evaluations": len(items) * len(decs)}


# ------------------------------------------------------------------------------ part A
def gen_pair(rng, shape):
    def rb(n):
        if n <= 2000:
            return bytes(rng.randrange(256) for _ in range(n))
        # large buffers: random over 16 "popular" letters with sparse rare anchor bytes, so that the pure-Python
        # encoder (difflib with autojunk) stays fast and still finds long matches; content is non-periodic
        out = bytearray(rng.choice(b"abcdefghijklmnop") for _ in range(n))
        for k in range(0, n, 53):
            out[k] = 128 + rng.randrange(128)
        return bytes(out)
    if shape == "empty":
        return rng.choice([(b"", b""), (b"", rb(5)), (rb(5), b""), (b"a", b"a")])
    if shape == "identical":
        b = rb(rng.choice([1, 100, 70000, 140000]))
        return b, b
    if shape == "disjoint":
        return rb(rng.randint(1, 300)), rb(rng.randint(1, 300))
    if shape == "edit":
        b = rb(rng.choice([10, 200, 3000, 70000]))
        t = bytearray(b)
        for _ in range(rng.randint(1, 6)):
            k = rng.randrange(len(t) + 1)
            op = rng.random()
            if op < 0.4:
                t[k:k] = rb(rng.randint(1, 50))
            elif op < 0.7:
                del t[k:k + rng.randint(1, 50)]
            else:
                t[k:k + 3] = rb(3)
        return b, bytes(t)
    if shape == "bigrun":
        # long shared run (> 64 KiB, > 2*0xffff) of NON-periodic data at offsets needing 1..4 bytes
        n = rng.choice([65535, 65536, 65537, 131070, 131071, 200000, 300000])
        run = rb(n)
        # a long deleted prefix makes the diff-based encoders quadratic (Rust `similar`: ~60 s for 65 KiB in a debug
        # build), so 3-byte copy offsets are left to the decoder-side (hostile/structured) part
        pre = rb(rng.choice([0, 1, 255, 256, 300]))
        return pre + run + rb(rng.randint(0, 20)), rb(rng.randint(0, 20)) + run + rb(rng.randint(0, 20))
    if shape == "moved":
        blocks = [rb(rng.randint(20, 400)) for _ in range(8)]
        b = b"".join(blocks)
        rng.shuffle(blocks)
        return b, b"".join(blocks[:rng.randint(1, 8)])
    raise ValueError(shape)


SHAPES = ["empty", "identical", "disjoint", "edit", "edit", "edit", "bigrun", "moved"]


def git_decode_and_encode(pairs, deltas_by_enc, scratch):
    """C git legs. decode: two-object packs (base + REF_DELTA) through `git index-pack`, read the target id back
    with cat-file. encode: git pack-objects deltifies (base,target); extract the delta with packfmt.
    Returns (decode_results {(i, enc): bytes|None}, git_deltas {i: (base_body, delta, result_body)})."""
    d = scratch.sub("gitleg")
    core.git(["init", "-q", "--bare", d])
    items = []
    want_ids = {}
    for (i, enc), delta in deltas_by_enc.items():
        base, target = pairs[i]
        bid = packfmt.obj_id(b"blob", base)
        items.append(("blob", base))
        items.append(("ref-delta", bid, delta))
        want_ids[(i, enc)] = packfmt.obj_id(b"blob", target).hex()
    res = {}
    # one pack per delta keeps a bad delta from poisoning the others; batch through unpack-objects is stricter
    for k, ((i, enc), delta) in enumerate(deltas_by_enc.items()):
        base, target = pairs[i]
        pk = packfmt.write_pack([("blob", base), ("ref-delta", packfmt.obj_id(b"blob", base), delta)])
        r = subprocess.run(["git", "unpack-objects", "-q"], cwd=d, input=pk, env=core.git_env(), stdout=subprocess.PIPE,
                           stderr=subprocess.PIPE, timeout=120)
        if r.returncode != 0:
            res[(i, enc)] = ("git-rejected", r.stderr.decode(errors="replace")[-150:])
            continue
        c = subprocess.run(["git", "cat-file", "blob", want_ids[(i, enc)]], cwd=d, env=core.git_env(), stdout=subprocess.PIPE,
                           stderr=subprocess.PIPE, timeout=120)
        res[(i, enc)] = ("ok", c.stdout) if c.returncode == 0 else ("target-missing", None)
    # encoder leg
    gd = {}
    d2 = scratch.sub("gitenc")
    core.git(["init", "-q", "--bare", d2])
    for i, (base, target) in enumerate(pairs):
        if len(base) < 20 or len(target) < 20 or base == target:
            continue
        ids = []
        for body in (base, target):
            r = core.git(["hash-object", "-w", "--stdin"], cwd=d2, input=body)
            ids.append(r.stdout.strip())
        r = core.git(["pack-objects", "--stdout", "--window=10", "--depth=50", "-q"], cwd=d2, input=b"\n".join(ids) + b"\n",
                     extra_cfg=["pack.compression=1"])
        pi = packfmt.parse_pack(r.stdout)
        bodies = {packfmt.obj_id(b"blob", base): base, packfmt.obj_id(b"blob", target): target}
        for e in pi.entries:
            if e.type in (packfmt.OFS_DELTA, packfmt.REF_DELTA):
                if e.type == packfmt.OFS_DELTA:
                    be = [x for x in pi.entries if x.offset == e.base_ofs][0]
                    bbody = be.payload
                else:
                    bbody = bodies[e.base_ref]
                result = target if bbody == base else base
                gd[i] = (bbody, e.payload, result)
    return res, gd


def run_codec(case):
    if "py_apply" not in _state:
        worker_init()
    rng = random.Random(case["seed"])
    pairs = [gen_pair(rng, s) for s in case["shapes"]]
    viol, stats, nontriv = [], {}, set()
    encs = [("python", _state["py_create"])]
    if _state["rs_create"] is not None:
        encs.append(("rust", _state["rs_create"]))
    encs.append(("pack.create_delta", _state["pack_create"]))
    decs = [("python", _state["py_apply"])]
    if _state["rs_apply"] is not None:
        decs.append(("rust", _state["rs_apply"]))
    decs.append(("pack.apply_delta", _state["pack_apply"]))
    deltas = {}
    for i, (base, target) in enumerate(pairs):
        for ename, enc in encs:
            try:
                r = enc(base, target)
                delta = b"".join(r) if not isinstance(r, bytes) else r
            except BaseException as e:
                viol.append({"sig": "C03/codec/encoder-%s/raise-%s/%s" % (ename, type(e).__name__, case["shapes"][i])})
                continue
            deltas[(i, ename)] = delta
            # independent reference must decode it too
            try:
                if packfmt.strict_apply_delta(base, delta) != target:
                    viol.append({"sig": "C03/codec/encoder-%s/reference-decodes-to-other-bytes/%s" % (ename, case["shapes"][i]),
                                 "base_len": len(base), "target_len": len(target)})
            except packfmt.DeltaError as e:
                viol.append({"sig": "C03/codec/encoder-%s/invalid-delta-emitted/%s" % (ename, case["shapes"][i]), "err": str(e)})
            for dname, dec in decs:
                stats["pairings"] = stats.get("pairings", 0) + 1
                try:
                    out = b"".join(dec(base, delta))
                except BaseException as e:
                    viol.append({"sig": "C03/codec/%s->%s/raise-%s/%s" % (ename, dname, type(e).__name__, case["shapes"][i])})
                    continue
                if out != target:
                    viol.append({"sig": "C03/codec/%s->%s/wrong-target/%s" % (ename, dname, case["shapes"][i]),
                                 "base_len": len(base), "target_len": len(target)})
                # chunked inputs (lists of chunks) must behave the same
                if len(base) > 3 and rng.random() < 0.3:
                    k = rng.randrange(1, len(base))
                    try:
                        out2 = b"".join(dec([base[:k], base[k:]], [delta[:1], delta[1:]]))
                        if out2 != target:
                            viol.append({"sig": "C03/codec/%s->%s/chunked-input-differs" % (ename, dname)})
                    except BaseException as e:
                        viol.append({"sig": "C03/codec/%s->%s/chunked-input-raise-%s" % (ename, dname, type(e).__name__)})
        nontriv.add("pair:%s:%d:%d" % (case["shapes"][i], min(len(base), 99999) // 1000, min(len(target), 99999) // 1000))
    if case.get("git"):
        try:
            # git refuses any delta shorter than DELTA_SIZE_MIN (4 bytes), i.e. every delta to an empty target: such
            # pairs are not offered to the git decoder (counted), git never stores them either
            sub = {k: v for k, v in deltas.items() if k[1] != "pack.create_delta" and len(v) >= 4}
            stats["git_leg_skipped_delta_shorter_than_4"] = sum(1 for k, v in deltas.items() if len(v) < 4)
            res, gd = git_decode_and_encode(pairs, sub, _state["scratch"])
            for (i, enc), (st, out) in res.items():
                stats["git_decodes"] = stats.get("git_decodes", 0) + 1
                if st != "ok" or out != pairs[i][1]:
                    viol.append({"sig": "C03/codec/%s->git/%s/%s" % (enc, st if st != "ok" else "wrong-target", case["shapes"][i]),
                                 "detail": out if isinstance(out, str) else None})
            for i, (bbody, delta, result) in gd.items():
                for dname, dec in decs:
                    stats["git_encoded_decodes"] = stats.get("git_encoded_decodes", 0) + 1
                    try:
                        out = b"".join(dec(bbody, delta))
                    except BaseException as e:
                        viol.append({"sig": "C03/codec/git->%s/raise-%s/%s" % (dname, type(e).__name__, case["shapes"][i])})
                        continue
                    if out != result:
                        viol.append({"sig": "C03/codec/git->%s/wrong-target/%s" % (dname, case["shapes"][i])})
        finally:
            import shutil
            for n in os.listdir(_state["scratch"].path):
                shutil.rmtree(os.path.join(_state["scratch"].path, n), ignore_errors=True)
    return {"viol": viol, "stats": stats, "nontrivial": sorted(nontriv), "evaluations": len(pairs)}


def run_chain(case):
    """Hostile deltas through the pack reader: DeltaChainIterator/_resolve_object and Pack reading of a pack
    whose delta payload is hostile: must raise an ordinary error or produce objects (C04 owns containment;
    here: no panic/base exception/abort and ApplyDeltaError-family for bad deltas)."""
    if "py_apply" not in _state:
        worker_init()
    from dulwich.pack import PackData, PackInflater
    import io
    viol, stats = [], {}
    for bname, dhex in case["items"]:
        base = base_bytes(bname)
        delta = bytes.fromhex(dhex)
        pk = packfmt.write_pack([("blob", base), ("ofs-delta", 0, delta)])
        try:
            strict = ("ok", packfmt.strict_apply_delta(base, delta))
        except packfmt.DeltaError:
            strict = ("reject", None)
        p = os.path.join(_state["scratch"].path, "h.pack")
        with open(p, "wb") as f:
            f.write(pk)
        stats["chain_packs"] = stats.get("chain_packs", 0) + 1
        soft, hard = resource.getrlimit(resource.RLIMIT_AS)
        resource.setrlimit(resource.RLIMIT_AS, (vmsize() + (256 << 20), hard))
        try:
            from dulwich.object_format import DEFAULT_OBJECT_FORMAT
            pd = PackData(p, DEFAULT_OBJECT_FORMAT)
            try:
                objs = {o.id: o.as_raw_string() for o in PackInflater.for_pack_data(pd)}
                want = packfmt.obj_id(b"blob", strict[1]).hex().encode() if strict[0] == "ok" else None
                if strict[0] == "ok" and want not in objs:
                    viol.append({"sig": "C03/chain/valid-delta-object-missing", "delta": dhex[:100]})
                if strict[0] != "ok" and len(objs) > 1:
                    # lenient acceptance (invalid trailing op skipped) is tolerated iff the object is the declared-length
                    # concatenation of the valid ops (same rule as in the hostile part)
                    lo = packfmt.lenient_output(base, delta)
                    tr = packfmt.trace_delta(len(base), delta)
                    extra = [v for k, v in objs.items() if v != base or k != packfmt.obj_id(b"blob", base).hex().encode()]
                    stats["chain_lenient_accepts"] = stats.get("chain_lenient_accepts", 0) + 1
                    if lo is None or any(len(v) != tr["dst"] or not lo.startswith(v) for v in extra):
                        viol.append({"sig": "C03/chain/object-not-composed-of-delta-ops", "delta": dhex[:100]})
            finally:
                pd.close()
        except MemoryError:
            viol.append({"sig": "C03/chain/allocation-out-of-proportion/" + hdr_class(delta), "delta": dhex[:100]})
        except Exception as e:
            if strict[0] == "ok":
                viol.append({"sig": "C03/chain/valid-delta-raises-" + type(e).__name__, "delta": dhex[:100]})
        except BaseException as e:
            viol.append({"sig": "C03/chain/panic-or-base-exception/%s/%s" % (type(e).__name__, hdr_class(delta)), "delta": dhex[:100]})
        finally:
            resource.setrlimit(resource.RLIMIT_AS, (soft, hard))
    return {"viol": viol, "stats": stats, "evaluations": len(case["items"]), "nontrivial": []}


def run_case(case):
    return {"hostile": run_hostile, "codec": run_codec, "chain": run_chain}[case["kind"]](case)


# ------------------------------------------------------------------------------ generators (parent)
def structured_deltas(rng, n):
    """Structured mutations of valid deltas."""
    out = []
    enc = packfmt.encode_varint_size

    def pad_varint(v, nbytes):
        b = bytearray(enc(v))
        while len(b) < nbytes:
            b[-1] |= 0x80
            b.append(0)
        return bytes(b)

    bases = ["5", "big", "1", "e", "rnd:3:300"]
    for _ in range(n):
        bn = rng.choice(bases)
        base = base_bytes(bn)
        kind = rng.choice(["varint", "copymask", "trunc", "op0", "trailing", "amplify", "declared", "insert", "randombody", "wrap64"])
        src = enc(len(base))
        if kind == "varint":
            nb = rng.randint(1, 11)
            dst = rng.choice([0, 1, 5, len(base), 2 ** 31, 2 ** 32, 2 ** 63, 2 ** 64 - 1, 2 ** 70])
            hs = rng.choice([src, pad_varint(len(base), nb)])
            hd = pad_varint(dst, max(nb, len(enc(dst)))) if rng.random() < 0.7 else enc(dst)
            body = bytes([len(base)]) + base[:0] if False else (b"\x90" + bytes([min(len(base), 255)]) if len(base) else b"")
            out.append((bn, hs + hd + body))
        elif kind == "wrap64":
            # an otherwise valid delta whose source or target size header says N + k*2^64 (a 10+ byte varint whose low 64 bits are the
            # honest size): a decoder that drops the bits shifted past 64 accepts it and returns N bytes for a declared N + k*2^64
            k = rng.choice([1, 1, 2, 3, 64, 2 ** 20])
            if len(base) and len(base) <= 255:
                body, honest = b"\x90" + bytes([len(base)]), len(base)
            else:
                body, honest = b"\x05hello", 5
            which = rng.choice(["src", "dst", "both"])
            hs = enc(len(base) + (k << 64)) if which in ("src", "both") else src
            hd = enc(honest + (k << 64)) if which in ("dst", "both") else enc(honest)
            out.append((bn, hs + hd + body))
        elif kind == "declared":
            dst = rng.choice([2 ** 20, 2 ** 28, 2 ** 30, 2 ** 31 - 1, 2 ** 31, 2 ** 32, 2 ** 40, 2 ** 62, 2 ** 63, 2 ** 63 - 1])
            body = rng.choice([b"", b"\x01a", b"\x90\x01", b"\x80"])
            out.append((bn, src + enc(dst) + body))
        elif kind == "copymask":
            cmd = 0x80 | rng.randrange(128)
            nbytes = bin(cmd & 0x7F).count("1")
            vals = bytes(rng.choice([0, 1, 2, 5, 0x7F, 0x80, 0xFF, len(base) & 0xFF, (len(base) >> 8) & 0xFF]) for _ in range(nbytes))
            dst = rng.choice([0, 1, 5, len(base), 0x10000, 70000])
            out.append((bn, src + enc(dst) + bytes([cmd]) + vals))
        elif kind == "trunc":
            good = src + enc(5) + b"\x05hello"
            k = rng.randrange(len(good) + 1)
            out.append((bn, good[:k]))
            good2 = src + enc(min(len(base), 4)) + b"\x91\x00" + bytes([min(len(base), 4)])
            out.append((bn, good2[:rng.randrange(len(good2) + 1)]))
        elif kind == "op0":
            out.append((bn, src + enc(1) + b"\x01a\x00"))
            out.append((bn, src + enc(0) + b"\x00"))
        elif kind == "trailing":
            out.append((bn, src + enc(1) + b"\x01a" + bytes(rng.randrange(256) for _ in range(rng.randint(1, 4)))))
        elif kind == "amplify":
            # many whole-base copies with a small declared size: output must stay bounded by the declared size
            k = rng.choice([10, 1000, 20000])
            if len(base) >= 0x10000:
                op = b"\x80"  # copy 0x10000 from offset 0
            elif len(base):
                op = b"\x90" + bytes([min(len(base), 255)])
            else:
                op = b"\x01a"
            dst = rng.choice([1, 64, 0x10000, 2 * 0x10000])
            out.append((bn, src + enc(dst) + op * k))
        elif kind == "insert":
            nlen = rng.randint(1, 127)
            body = bytes([nlen]) + bytes(rng.randrange(256) for _ in range(rng.choice([nlen, nlen - 1, nlen + 1, 0])))
            out.append((bn, src + enc(rng.choice([nlen, nlen - 1, nlen + 1])) + body))
        else:
            out.append((bn, src + enc(rng.randint(0, 40)) + bytes(rng.choice(ALPHA + [3, 4, 0x10]) for _ in range(rng.randint(0, 12)))))
    return out


def main(ctx):
    L = 6 if ctx.thorough else 5
    cases = []
    # exhaustive: all strings of length <= L over ALPHA, against 4 bases
    allstr = []
    for n in range(0, L + 1):
        for t in itertools.product(ALPHA, repeat=n):
            allstr.append(bytes(t).hex())
    n_exh = 0
    B = 3000
    for bn in ("e", "1", "5", "big"):
        for i in range(0, len(allstr), B):
            cases.append({"kind": "hostile", "items": [(bn, d) for d in allstr[i:i + B]], "exh": True})
            n_exh += len(allstr[i:i + B])
    rng = ctx.sub_rng("struct")
    st = structured_deltas(rng, ctx.budget(8000, 120000))
    for i in range(0, len(st), 400):
        cases.append({"kind": "hostile", "items": [(b, d.hex()) for b, d in st[i:i + 400]]})
    st2 = structured_deltas(ctx.sub_rng("chain"), ctx.budget(600, 6000))
    for i in range(0, len(st2), 100):
        cases.append({"kind": "chain", "items": [(b, d.hex()) for b, d in st2[i:i + 100]]})
    npairs = ctx.budget(1500, 30000)
    per = 12
    for i in range(npairs // per):
        cases.append({"kind": "codec", "seed": "%d/c/%d" % (ctx.seed, i), "shapes": [SHAPES[(i + k) % len(SHAPES)] for k in range(per)],
                      "git": i % 6 == 0})
    ctx.rule = ("hostile: ALL byte strings of length <= %d over the opcode alphabet %s as deltas against bases of length 0,1,5,70000 "
                "(exhaustive) + structured mutations (size varints of 1..11 bytes, declared sizes to 2^70, every copy mask, truncations, "
                "opcode 0, trailing bytes, copy amplification); codec: generated (base,target) pairs through every encoder x decoder "
                "pairing incl. C git. non-trivial = distinct (base, reference verdict, header class, length) / distinct pair shape+size." % (
                    L, [hex(a) for a in ALPHA]))
    ctx.explanation = "exhaustive sub-space: %d deltas (all strings <= %d bytes over 11-symbol alphabet x 4 bases) x both decoders" % (n_exh, L)
    ctx.assumptions = ["vt.ref.packfmt.strict_apply_delta transcribes git's patch-delta.c; it is cross-checked against C git in the codec part",
                       "allocation budget per call: VmSize + 64 MiB + 32*(|base|+|delta|+P), enforced with RLIMIT_AS"]
    retry = []

    def on_result(case, out):
        if out["status"] != "ok":
            if out["status"] == "timeout":
                ctx.violation("C03/%s/decoder-did-not-terminate" % case["kind"], case, out)
            elif out["status"] == "died" and case["kind"] in ("hostile", "chain") and len(case["items"]) > 1:
                retry.append(case)
            elif out["status"] == "died":
                it = case.get("items", [[None, ""]])[0]
                tail = out.get("stderr", "")
                why = "alloc-failure" if "memory allocation" in tail else "signal-%s" % out.get("signal", out.get("exit"))
                ctx.violation("C03/%s/process-died/%s/%s" % (case["kind"], why, hdr_class(bytes.fromhex(it[1])) if it[0] else ""), case,
                              {"stderr": tail[-300:], "signal": out.get("signal")})
            else:
                ctx.violation("C03/%s/harness-error/%s" % (case["kind"], out.get("exc")), case, out)
            return
        res = out["result"]
        ctx.merge(res)
        for v in res.get("viol", []):
            c = case
            if "delta" in v and "base" in v and v.get("delta_len", 999) <= 100:
                c = {"kind": "hostile", "items": [[v["base"], v["delta"]]]}
            ctx.violation(v["sig"], c, v)
        if not case.get("exh") or ctx.stats["sampled_exh"] < 1:
            ctx.sample({k: (v if k != "items" else v[:5]) for k, v in case.items()}, case["kind"])
            if case.get("exh"):
                ctx.count("sampled_exh")

    kw = dict(timeout=120, on_result=on_result, ext_table=getattr(ctx, "ext_table", None))
    pool.pmap("vt.checks.c03", cases, **kw)
    # a worker died on a batch: find the culprits by bisection down to single items
    rounds = 0
    while retry and rounds < 12:
        rounds += 1
        batch, retry[:] = list(retry), []
        sub = []
        for c in batch:
            items = c["items"]
            if len(items) <= 8:
                sub += [{"kind": c["kind"], "items": [it]} for it in items]
            else:
                h = len(items) // 2
                sub += [{"kind": c["kind"], "items": items[:h]}, {"kind": c["kind"], "items": items[h:]}]
        ctx.count("died_batches_bisected", len(batch))
        pool.pmap("vt.checks.c03", sub, **kw)
    if ctx.stats["calls_python"] < n_exh:
        return "exhaustive sweep incomplete: %d python decoder calls < %d" % (ctx.stats["calls_python"], n_exh)
    if getattr(ctx, "ext_table", None) and not ctx.stats["calls_rust"]:
        return "rust decoder never called"
    return None
