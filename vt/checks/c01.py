"""C01 — object names are content hashes; serialisation is lossless and git-identical.

Monitors:
  M1 name=hash invariant on live objects across generated setter/observation sequences (id against a
     fresh hashlib digest of header+bytes, bytes against an independent reference serialiser of the
     values read back through the public getters) -- catches stale caches
  M2 fields -> object -> bytes -> object round trip (from_string / from_raw_string / from_raw_chunks with
     random chunking / loose-object file)
  M3 parse of printer-generated texts in odd layouts, unchanged re-serialisation and one-field edits
  M4 C git: ids and acceptance (hash-object, fsck --strict), git reads dulwich-written loose objects,
     mktree / commit-tree ids for the same logical object
"""
import hashlib
import os
import random
import shutil
import zlib

from vt import core, pool

LEVEL = "exploration"
_st = {}
HEX = b"0123456789abcdef"


def rhex(rng, n=40):
    return bytes(rng.choice(HEX) for _ in range(n))


# ------------------------------------------------------------------------------ reference serialiser
def ref_tz(off, neg_utc):
    if neg_utc and off > 0:
        # legacy "unnecessary negative" spelling kept from parsing, e.g. --700 for +0700 (only reachable by parsing)
        return b"-" + ("%02d%02d" % (-off / 3600, (-off / 60) % 60)).encode()
    sign = b"-" if (off < 0 or neg_utc) else b"+"
    off = abs(off)
    return sign + b"%02d%02d" % (off // 3600, (off // 60) % 60)


def fold(field, value):
    lines = value.split(b"\n")
    out = field + b" " + lines[0] + b"\n"
    for l in lines[1:]:
        out += b" " + l + b"\n"
    return out


def ref_commit(r):
    out = b"tree " + r["tree"] + b"\n"
    for p in r["parents"]:
        out += b"parent " + p + b"\n"
    out += b"author " + r["author"] + b" " + str(r["author_time"]).encode() + b" " + ref_tz(r["author_tz"], r.get("author_negutc", False)) + b"\n"
    out += b"committer " + r["committer"] + b" " + str(r["commit_time"]).encode() + b" " + ref_tz(r["commit_tz"], r.get("commit_negutc", False)) + b"\n"
    if r.get("encoding"):
        out += b"encoding " + r["encoding"] + b"\n"
    for mt in r.get("mergetags", []):
        out += fold(b"mergetag", mt[:-1] if mt.endswith(b"\n") else mt)
    for k, v in r.get("extra", []):
        out += fold(k, v)
    if r.get("gpgsig"):
        out += fold(b"gpgsig", r["gpgsig"])
    out += b"\n"
    out += r.get("message") or b""
    return out


def ref_tag(r):
    out = b"object " + r["object"] + b"\n" + b"type " + r["type"] + b"\n" + b"tag " + r["name"] + b"\n"
    if r.get("tagger") is not None:
        out += b"tagger " + r["tagger"]
        if r.get("tag_time") is not None:
            out += b" " + str(r["tag_time"]).encode() + b" " + ref_tz(r["tag_tz"], r.get("tag_negutc", False))
        out += b"\n"
    if r.get("message") is not None:
        out += b"\n" + r["message"]
    if r.get("signature"):
        out += r["signature"]
    return out


def git_tree_key(name, mode):
    return name + (b"/" if (mode & 0o170000) == 0o040000 else b"")


def ref_tree(entries):
    out = b""
    for name, mode, hexsha in sorted(entries, key=lambda e: git_tree_key(e[0], e[1])):
        out += b"%o" % mode + b" " + name + b"\0" + bytes.fromhex(hexsha.decode())
    return out


def oid(tname, body, algo="sha1"):
    h = hashlib.new(algo)
    h.update(tname + b" " + str(len(body)).encode() + b"\0" + body)
    return h.hexdigest().encode()


# ------------------------------------------------------------------------------ generators
IDENTS = [b"A U Thor <a@example.com>", b"\xc3\xa9\xff <x@y>", b"Name <>", b"<only@mail>", b"A  B <a@b>", b"N. O'Body <n.o+tag@host.example>",
          b"Tab\tby <t@t>", b"X (comment) <x@y.z>"]
TZS = [(0, False), (0, True), (19800, False), (-25200, False), (50400, False), (-43200, False), (3600, False), (-60, False), (60, False)]
TIMES = [0, 1, 1700000000, 2 ** 31 - 1, 2 ** 31, 2 ** 32, 2 ** 40, 999999999999]
ODD_TIMES = [-1, -1700000000, 2 ** 63 - 1, 2 ** 63, 2 ** 64 + 5]
SIG = b"-----BEGIN PGP SIGNATURE-----\n\niQEzBAABCAAdFiEE\n=abcd\n-----END PGP SIGNATURE-----"
SSHSIG = b"-----BEGIN SSH SIGNATURE-----\nU1NIU0lHAAAAAQ\n-----END SSH SIGNATURE-----"
TREE_NAMES = [b"a", b"a.", b"a-", b"a0", b"a b", b"ab", b"a\xff", b"a\x80", b"A", b"b", b"\xc3\xa9", b"caf", b"caf\xc3\xa9", b"a.b", b".x", b"x" * 200,
              b"a\tb", b"a\nb", b"-", b"~"]
TREE_MODES = [0o100644, 0o100755, 0o120000, 0o160000, 0o040000, 0o100664]


def gen_commit_rec(rng, odd=False):
    r = {"tree": rhex(rng), "parents": [rhex(rng) for _ in range(rng.choice([0, 1, 1, 2, 3, 8]))],
         "author": rng.choice(IDENTS), "committer": rng.choice(IDENTS),
         "author_time": rng.choice(TIMES + (ODD_TIMES if odd else [])), "commit_time": rng.choice(TIMES + (ODD_TIMES if odd else []))}
    r["author_tz"], r["author_negutc"] = rng.choice(TZS)
    r["commit_tz"], r["commit_negutc"] = rng.choice(TZS)
    if rng.random() < 0.3:
        r["encoding"] = rng.choice([b"ISO-8859-1", b"UTF-8", b"x"])
    if rng.random() < 0.25:
        r["gpgsig"] = rng.choice([SIG, SSHSIG, b"one-line"])
    if rng.random() < 0.25:
        r["extra"] = [(rng.choice([b"change-id", b"x-header", b"HG:rename-source"]), rng.choice([b"v", b"multi\nline\n\nvalue", b"", b" lead"]))
                      for _ in range(rng.randint(1, 2))]
    if rng.random() < 0.15:
        mt = gen_tag_rec(rng)
        mt["message"] = b"merged tag\n"
        r["mergetags"] = [ref_tag(mt)]
    r["message"] = rng.choice([b"msg\n", b"", b"no newline", b"\n\nlead blank\n", b"subj\n\nbody \xff\xfe\n", b"a\r\nb\r\n", b" \n", b"x" * 3000])
    return r


def gen_tag_rec(rng):
    r = {"object": rhex(rng), "type": rng.choice([b"commit", b"tree", b"blob", b"tag"]), "name": rng.choice([b"v1.0", b"x/y", b"\xc3\xa9", b"a b"]),
         "message": rng.choice([b"release\n", b"", b"no newline", b"multi\n\nline\n"])}
    if rng.random() < 0.85:
        r["tagger"] = rng.choice(IDENTS)
        r["tag_time"] = rng.choice(TIMES)
        r["tag_tz"], r["tag_negutc"] = rng.choice(TZS)
    if rng.random() < 0.3:
        r["signature"] = SIG + b"\n"
    return r


def gen_tree_entries(rng):
    k = rng.choice([0, 1, 2, 3, 5, 9])
    names = rng.sample(TREE_NAMES, min(k, len(TREE_NAMES)))
    return [(n, rng.choice(TREE_MODES), rhex(rng)) for n in names]


def build_commit(O, r, rng):
    c = O.Commit()
    setters = [("tree", r["tree"]), ("parents", list(r["parents"])), ("author", r["author"]), ("committer", r["committer"]),
               ("author_time", r["author_time"]), ("commit_time", r["commit_time"]), ("author_timezone", r["author_tz"]),
               ("commit_timezone", r["commit_tz"]), ("message", r["message"])]
    if r.get("encoding"):
        setters.append(("encoding", r["encoding"]))
    if r.get("gpgsig"):
        setters.append(("gpgsig", r["gpgsig"]))
    rng.shuffle(setters)
    for k, v in setters:
        setattr(c, k, v)
    if r.get("author_negutc"):
        c._author_timezone_neg_utc = True
    if r.get("commit_negutc"):
        c._commit_timezone_neg_utc = True
    if r.get("extra"):
        c._extra = list(r["extra"])
        c._needs_serialization = True
    if r.get("mergetags"):
        c.mergetag = [O.Tag.from_string(mt) for mt in r["mergetags"]]
    return c


def commit_fields(c):
    r = {"tree": c.tree, "parents": list(c.parents), "author": c.author, "committer": c.committer, "author_time": c.author_time,
         "commit_time": c.commit_time, "author_tz": c.author_timezone, "commit_tz": c.commit_timezone,
         "author_negutc": c._author_timezone_neg_utc, "commit_negutc": c._commit_timezone_neg_utc, "message": c.message}
    if c.encoding:
        r["encoding"] = c.encoding
    if c.gpgsig:
        r["gpgsig"] = c.gpgsig
    if c._extra:
        r["extra"] = [(k, v) for k, v in c._extra]
    if c.mergetag:
        r["mergetags"] = [m.as_raw_string() for m in c.mergetag]
    return r


def norm_commit(r):
    n = dict(r)
    for k in ("author_negutc", "commit_negutc"):
        n[k] = bool(n.get(k, False))
    for k in ("encoding", "gpgsig", "extra", "mergetags"):
        if not n.get(k):
            n.pop(k, None)
    if "mergetags" in n:
        n["mergetags"] = [m if m.endswith(b"\n") else m for m in n["mergetags"]]
    n["message"] = n.get("message") or b""
    return n


def build_tag(O, r, rng):
    t = O.Tag()
    cls = {b"commit": O.Commit, b"tree": O.Tree, b"blob": O.Blob, b"tag": O.Tag}[r["type"]]
    setters = [("object", (cls, r["object"])), ("name", r["name"]), ("message", r["message"])]
    if "tagger" in r:
        setters += [("tagger", r["tagger"]), ("tag_time", r["tag_time"]), ("tag_timezone", r["tag_tz"])]
    if r.get("signature"):
        setters.append(("signature", r["signature"]))
    rng.shuffle(setters)
    for k, v in setters:
        setattr(t, k, v)
    if r.get("tag_negutc"):
        t._tag_timezone_neg_utc = True
    return t


def tag_fields(t):
    r = {"object": t.object[1], "type": t.object[0].type_name, "name": t.name, "message": t.message}
    if t.tagger is not None:
        r["tagger"] = t.tagger
        r["tag_time"] = t.tag_time
        r["tag_tz"] = t.tag_timezone
        r["tag_negutc"] = bool(t._tag_timezone_neg_utc)
    if t.signature:
        r["signature"] = t.signature
    return r


def check_named(obj, want_bytes, viol, what, O):
    """M1: name = hash of what it serialises to, and bytes = reference bytes."""
    raw = obj.as_raw_string()
    if want_bytes is not None and raw != want_bytes:
        viol.append({"sig": "C01/%s/bytes-differ-from-reference" % what, "got": raw[:300].hex(), "want": want_bytes[:300].hex()})
        return False
    want_id = oid(obj.type_name, raw)
    if obj.id != want_id:
        viol.append({"sig": "C01/%s/id-is-not-hash-of-content" % what, "id": obj.id.decode(), "hash": want_id.decode()})
        return False
    try:
        from dulwich.object_format import SHA256
        g = obj.get_id(SHA256)
        if g != oid(obj.type_name, raw, "sha256"):
            viol.append({"sig": "C01/%s/sha256-id-is-not-hash-of-content" % what})
            return False
    except (ImportError, AttributeError, TypeError):
        pass
    # the same bytes handed out under a trusted name of either algorithm (what an object store of that format does): the name asked
    # for explicitly must still be the hash under the algorithm asked for, whatever name the object carries (every 4th call)
    _named_calls[0] += 1
    if _named_calls[0] % 4 == 0:
        from dulwich.object_format import SHA1, SHA256
        s1, s256 = oid(obj.type_name, raw), oid(obj.type_name, raw, "sha256")
        for label, kw in (("trusted-sha256-name", {"sha": s256}), ("trusted-sha1-name", {"sha": s1}), ("verified-sha256-name", {"verify_sha": s256, "object_format": SHA256}),
                          ("verified-sha1-name", {"verify_sha": s1})):
            if obj.type_name == b"tree" and "sha256" in label:
                continue   # a tree's bytes embed ids of one algorithm: these trees are SHA-1 trees and are not offered as SHA-256 ones
            try:
                o2 = O.ShaFile.from_raw_string(obj.type_num, raw, **kw)
                g1, g256 = o2.get_id(SHA1), o2.get_id(SHA256)
            except Exception as e:
                viol.append({"sig": "C01/%s/loaded-under-%s/raises-%s" % (what, label, type(e).__name__)})
                return False
            if g1 != s1 or g256 != s256:
                viol.append({"sig": "C01/%s/loaded-under-%s/explicit-%s-id-is-not-that-hash" % (what, label, "sha1" if g1 != s1 else "sha256"),
                             "got": (g1 if g1 != s1 else g256).decode()})
                return False
    return True


_named_calls = [0]


# ------------------------------------------------------------------------------ case kinds
def run_build(case):
    import dulwich.objects as O
    rng = random.Random(case["seed"])
    viol, nt, n = [], set(), 0
    for _ in range(case["n"]):
        kind = rng.choice(["commit", "commit", "tag", "tree", "blob"])
        n += 1
        if kind == "commit":
            r = gen_commit_rec(rng, odd=True)
            try:
                c = build_commit(O, r, rng)
                want = ref_commit(r)
            except Exception as e:
                viol.append({"sig": "C01/commit/build-raises-" + type(e).__name__, "rec": repr(r)[:300]})
                continue
            ok = check_named(c, want, viol, "commit/built", O)
            if ok:
                for how in ("from_string", "raw_chunks"):
                    try:
                        if how == "from_string":
                            c2 = O.Commit.from_string(want)
                        else:
                            k = sorted(rng.sample(range(len(want)), min(3, len(want))))
                            chunks = [want[a:b] for a, b in zip([0] + k, k + [len(want)])]
                            c2 = O.ShaFile.from_raw_chunks(1, chunks)
                        f = norm_commit(commit_fields(c2))
                        if f != norm_commit(r):
                            diff = [k_ for k_ in set(f) | set(r) if f.get(k_) != norm_commit(r).get(k_)]
                            viol.append({"sig": "C01/commit/fields-differ-after-parse/" + "+".join(sorted(diff)[:2]), "rec": repr(r)[:400]})
                        if c2.id != c.id or c2.as_raw_string() != want:
                            viol.append({"sig": "C01/commit/parsed-object-serialises-differently"})
                    except Exception as e:
                        viol.append({"sig": "C01/commit/parse-of-own-output-raises-" + type(e).__name__, "text": want[:300].hex()})
            nt.add("c:%d:%s:%s" % (len(r["parents"]), "+".join(sorted(k for k in ("encoding", "gpgsig", "extra", "mergetags") if r.get(k))), r["commit_negutc"]))
        elif kind == "tag":
            r = gen_tag_rec(rng)
            t = build_tag(O, r, rng)
            want = ref_tag(r)
            if check_named(t, want, viol, "tag/built", O):
                try:
                    t2 = O.Tag.from_string(want)
                    f = tag_fields(t2)
                    exp = dict(r)
                    exp["tag_negutc"] = bool(exp.get("tag_negutc", False)) if "tagger" in exp else None
                    if "tagger" not in exp:
                        exp.pop("tag_negutc", None)
                    if not exp.get("signature"):
                        exp.pop("signature", None)
                    if f != exp:
                        diff = [k_ for k_ in set(f) | set(exp) if f.get(k_) != exp.get(k_)]
                        viol.append({"sig": "C01/tag/fields-differ-after-parse/" + "+".join(sorted(diff)[:2]), "rec": repr(r)[:300], "got": repr(f)[:300]})
                    if t2.as_raw_string() != want or t2.id != t.id:
                        viol.append({"sig": "C01/tag/parsed-object-serialises-differently"})
                except Exception as e:
                    viol.append({"sig": "C01/tag/parse-of-own-output-raises-" + type(e).__name__, "text": want[:300].hex()})
            nt.add("t:%s:%s:%s" % (r["type"].decode(), "tagger" in r, bool(r.get("signature"))))
        elif kind == "tree":
            ents = gen_tree_entries(rng)
            t = O.Tree()
            order = list(ents)
            rng.shuffle(order)
            for name, mode, sha in order:
                if rng.random() < 0.5:
                    t.add(name, mode, sha)
                else:
                    t[name] = (mode, sha)
            want = ref_tree(ents)
            if check_named(t, want, viol, "tree/built", O):
                t2 = O.Tree.from_string(want)
                got = [(e.path, e.mode, e.sha) for e in t2.iteritems()]
                exp = sorted(ents, key=lambda e: git_tree_key(e[0], e[1]))
                if got != exp:
                    viol.append({"sig": "C01/tree/entries-differ-after-parse"})
            nt.add("tr:%d:%s" % (len(ents), any(e[1] == 0o040000 for e in ents)))
        else:
            data = rng.choice([b"", b"x", bytes(rng.randrange(256) for _ in range(rng.randint(0, 300))), b"\0" * 10])
            b = O.Blob()
            if rng.random() < 0.5:
                b.data = data
            else:
                k = rng.randrange(len(data) + 1)
                b.chunked = [data[:k], b"", data[k:]]
            check_named(b, data, viol, "blob/built", O)
            # loose object file round trip
            raw = b.as_legacy_object(rng.choice([-1, 0, 1, 9]))
            if zlib.decompress(raw) != b"blob %d\0" % len(data) + data:
                viol.append({"sig": "C01/blob/legacy-object-bytes-wrong"})
            b2 = O.ShaFile.from_file(__import__("io").BytesIO(raw))
            if b2.id != b.id or b2.as_raw_string() != data:
                viol.append({"sig": "C01/blob/loose-file-roundtrip-differs"})
            nt.add("b:%d" % min(len(data), 5))
    return {"viol": dedupe(viol), "stats": {"objects_built": n}, "nontrivial": sorted(nt), "evaluations": n}


def run_refill(case):
    """One live instance per type is re-filled again and again through the public set_raw_string()/set_raw_chunks() with the reference
    bytes of freshly generated records (with and without every optional field): what it then reports, serialises to and is named must be
    that of the new text alone - nothing may survive from the text it held before. A no-op edit (a field set to its own value) then
    forces a re-serialisation from the fields."""
    import dulwich.objects as O
    rng = random.Random(case["seed"])
    viol, nt, n = [], set(), 0
    live = {"commit": O.Commit(), "tag": O.Tag(), "tree": O.Tree(), "blob": O.Blob()}
    prev = {}
    for _ in range(case["n"]):
        kind = rng.choice(["commit", "tag", "tag", "tree", "blob"])
        n += 1
        if kind == "commit":
            r = gen_commit_rec(rng, odd=True)
            want = ref_commit(r)
        elif kind == "tag":
            r = gen_tag_rec(rng)
            want = ref_tag(r)
        elif kind == "tree":
            r = gen_tree_entries(rng)
            want = ref_tree(r)
        else:
            r = want = bytes(rng.randrange(256) for _ in range(rng.randint(0, 40)))
        obj = live[kind]
        try:
            if rng.random() < 0.5:
                obj.set_raw_string(want)
            else:
                k = sorted(rng.sample(range(len(want)), min(2, len(want))))
                obj.set_raw_chunks([want[a:b] for a, b in zip([0] + k, k + [len(want)])])
            fresh = O.ShaFile.from_raw_string(obj.type_num, want)
            if kind == "commit":
                f_live, f_fresh = norm_commit(commit_fields(obj)), norm_commit(commit_fields(fresh))
            elif kind == "tag":
                f_live, f_fresh = tag_fields(obj), tag_fields(fresh)
            elif kind == "tree":
                f_live, f_fresh = [(e.path, e.mode, e.sha) for e in obj.iteritems()], [(e.path, e.mode, e.sha) for e in fresh.iteritems()]
            else:
                f_live, f_fresh = obj.data, fresh.data
            shape = "+".join(sorted(set(prev.get(kind, [])) - (set(f_fresh) if isinstance(f_fresh, dict) else set())))[:40] if isinstance(f_fresh, dict) else ""
            if f_live != f_fresh:
                diff = sorted(k_ for k_ in set(f_live) | set(f_fresh) if f_live.get(k_) != f_fresh.get(k_)) if isinstance(f_fresh, dict) else ["content"]
                viol.append({"sig": "C01/%s/refilled-instance-reports-fields-of-earlier-text/%s" % (kind, "+".join(diff[:2])), "previous_had": shape})
                live[kind] = type(obj)()
                continue
            if not check_named(obj, want, viol, "%s/refilled" % kind, O):
                live[kind] = type(obj)()
                continue
            # no-op edit: re-serialise from the fields
            if kind == "commit":
                obj.message = obj.message
            elif kind == "tag":
                obj.name = obj.name
            elif kind == "tree" and r:
                nm, md, sh = r[0]
                obj[nm] = (md, sh)
            elif kind == "blob":
                obj.data = obj.data
            if obj.as_raw_string() != want or obj.id != oid(obj.type_name, want):
                viol.append({"sig": "C01/%s/refilled-then-noop-edit/bytes-differ-from-reference" % kind, "previous_had": shape,
                             "got": obj.as_raw_string()[:300].hex(), "want": want[:300].hex()})
                live[kind] = type(obj)()
                continue
            if isinstance(f_fresh, dict):
                prev[kind] = list(f_fresh)
                nt.add("refill:%s:%s" % (kind, "+".join(sorted(k_ for k_ in f_fresh if k_ in ("tagger", "signature", "encoding", "gpgsig", "extra", "mergetags")))))
        except Exception as e:
            viol.append({"sig": "C01/%s/refill-raises-%s" % (kind, type(e).__name__), "text": want[:300].hex()})
            live[kind] = type(obj)()
    return {"viol": dedupe(viol), "stats": {"instances_refilled": n}, "nontrivial": sorted(nt), "evaluations": n}


def dedupe(viol):
    seen, out = set(), []
    for v in viol:
        if v["sig"] not in seen:
            seen.add(v["sig"])
            out.append(v)
    return out


def run_edits(case):
    """M1 over edit sequences with observations as part of the sequence."""
    import dulwich.objects as O
    rng = random.Random(case["seed"])
    viol, nt, n = [], set(), 0
    for _ in range(case["n"]):
        kind = rng.choice(["commit", "tag", "tree", "blob"])
        trace = []
        if kind == "commit":
            r = gen_commit_rec(rng)
            r.pop("mergetags", None)
            r.pop("extra", None)
            obj = build_commit(O, r, rng) if rng.random() < 0.5 else O.Commit.from_string(ref_commit(r))
            ref = ref_commit
            fields = {"tree": lambda: rhex(rng), "parents": lambda: [rhex(rng) for _ in range(rng.randint(0, 3))], "author": lambda: rng.choice(IDENTS),
                      "committer": lambda: rng.choice(IDENTS), "author_time": lambda: rng.choice(TIMES), "commit_time": lambda: rng.choice(TIMES),
                      "author_timezone": lambda: rng.choice(TZS)[0], "commit_timezone": lambda: rng.choice(TZS)[0],
                      "message": lambda: rng.choice([b"m\n", b"", b"x"]), "encoding": lambda: rng.choice([b"latin1", None]),
                      "gpgsig": lambda: rng.choice([SIG, None])}
            keymap = {"author_timezone": "author_tz", "commit_timezone": "commit_tz"}
        elif kind == "tag":
            r = gen_tag_rec(rng)
            if "tagger" not in r:
                r["tagger"], r["tag_time"], r["tag_tz"], r["tag_negutc"] = IDENTS[0], 5, 0, False
            obj = build_tag(O, r, rng) if rng.random() < 0.5 else O.Tag.from_string(ref_tag(r))
            ref = ref_tag
            fields = {"name": lambda: rng.choice([b"n1", b"n2"]), "tagger": lambda: rng.choice(IDENTS), "tag_time": lambda: rng.choice(TIMES),
                      "tag_timezone": lambda: rng.choice(TZS)[0], "message": lambda: rng.choice([b"m\n", b"", b"x"]),
                      "signature": lambda: rng.choice([SIG + b"\n", None]), "object": lambda: (O.Blob, rhex(rng))}
            keymap = {"tag_timezone": "tag_tz"}
        elif kind == "tree":
            ents = {e[0]: e for e in gen_tree_entries(rng)}
            obj = O.Tree()
            for e in ents.values():
                obj.add(*e)
            if rng.random() < 0.5:
                obj = O.Tree.from_string(obj.as_raw_string())
        else:
            data = b"hello"
            obj = O.Blob.from_string(data)
        for step in range(rng.randint(1, 8)):
            n += 1
            if kind in ("commit", "tag"):
                f = rng.choice(list(fields))
                v = fields[f]()
                if f == "parents" and rng.random() < 0.5:
                    # edit the list the getter hands out, then assign that same list object back (the setter must not conclude that
                    # nothing changed from comparing the list with itself)
                    _ = obj.id if rng.random() < 0.7 else None
                    live = obj.parents
                    if rng.random() < 0.5 or not live:
                        live.append(rhex(rng))
                    else:
                        live.pop(rng.randrange(len(live)))
                    v = live
                    setattr(obj, f, v)
                    v = list(v)
                    trace.append("parents-inplace-then-reassign")
                else:
                    setattr(obj, f, v)
                    trace.append(f)
                if f == "object":
                    r["type"], r["object"] = v[0].type_name, v[1]
                elif f in ("author_timezone", "commit_timezone", "tag_timezone"):
                    r[keymap[f]] = v
                    # a setter on the offset keeps the parsed '-0000' flag: reference follows the object's flag
                else:
                    r[f] = v
                for flag, attr in (("author_negutc", "_author_timezone_neg_utc"), ("commit_negutc", "_commit_timezone_neg_utc"), ("tag_negutc", "_tag_timezone_neg_utc")):
                    if hasattr(obj, attr):
                        r[flag] = bool(getattr(obj, attr))
                want = ref(r)
            elif kind == "tree":
                op = rng.choice(["add", "set", "del"])
                name = rng.choice(TREE_NAMES)
                if op == "del":
                    if name in ents:
                        del obj[name]
                        del ents[name]
                else:
                    e = (name, rng.choice(TREE_MODES), rhex(rng))
                    if op == "add":
                        obj.add(*e)
                    else:
                        obj[name] = (e[1], e[2])
                    ents[name] = e
                trace.append(op)
                want = ref_tree(list(ents.values()))
            else:
                data = bytes(rng.randrange(256) for _ in range(rng.randint(0, 20)))
                if rng.random() < 0.5:
                    obj.data = data
                    trace.append("data=")
                else:
                    k = rng.randrange(len(data) + 1)
                    obj.chunked = [data[:k], data[k:]]
                    trace.append("chunked=")
                want = data
            # observation points are part of the sequence: sometimes observe, sometimes not
            if rng.random() < 0.6:
                how = rng.choice(["id", "raw", "sha", "copy"])
                trace.append("obs:" + how)
                if how == "id":
                    _ = obj.id
                elif how == "sha":
                    _ = obj.sha().hexdigest()
                elif how == "copy":
                    _ = obj.copy().id
                if not check_named(obj, want, viol, "%s/after-%s" % (kind, trace[-2] if len(trace) > 1 else "?"), O):
                    viol[-1]["trace"] = list(trace)
                    break
        else:
            if not check_named(obj, want, viol, "%s/end-of-sequence" % kind, O):
                viol[-1]["trace"] = list(trace)
        nt.add("ed:%s:%s" % (kind, "+".join(sorted(set(trace)))[:60]))
    return {"viol": dedupe(viol), "stats": {"edit_steps": n}, "nontrivial": sorted(nt), "evaluations": n}


def print_commit_layout(r, layout):
    """Printer producing layouts only a parser sees. layout: dict(order of optional headers, blank line, ...)"""
    out = b"tree " + r["tree"] + b"\n"
    for p in r["parents"]:
        out += b"parent " + p + b"\n"
    out += b"author " + r["author"] + b" " + str(r["author_time"]).encode() + b" " + ref_tz(r["author_tz"], r.get("author_negutc", False)) + b"\n"
    out += b"committer " + r["committer"] + b" " + str(r["commit_time"]).encode() + b" " + ref_tz(r["commit_tz"], r.get("commit_negutc", False)) + b"\n"
    opt = {"encoding": (b"encoding " + r["encoding"] + b"\n") if r.get("encoding") else b"",
           "extra": b"".join(fold(k, v) for k, v in r.get("extra", [])),
           "gpgsig": fold(b"gpgsig", r["gpgsig"]) if r.get("gpgsig") else b""}
    for k in layout["order"]:
        out += opt[k]
    if layout.get("no_blank") and not r.get("message"):
        return out
    out += b"\n" + (r.get("message") or b"")
    return out


def run_reparse(case):
    """M3: parse -> unchanged serialise; parse -> one field -> serialise, expected from the printer in the same layout."""
    import dulwich.objects as O
    rng = random.Random(case["seed"])
    viol, nt, n = [], set(), 0
    for _ in range(case["n"]):
        r = gen_commit_rec(rng)
        r.pop("mergetags", None)
        layout = {"order": rng.choice([["encoding", "extra", "gpgsig"], ["encoding", "extra", "gpgsig"], ["gpgsig", "extra", "encoding"],
                                       ["extra", "encoding", "gpgsig"], ["encoding", "gpgsig", "extra"]]),
                  "no_blank": rng.random() < 0.15}
        if layout["no_blank"]:
            r["message"] = b""
        if rng.random() < 0.1:
            r["commit_tz"], r["commit_negutc"] = 25200, True  # the historical "--700" spelling must survive edits of other fields
        text = print_commit_layout(r, layout)
        canonical = layout["order"] == ["encoding", "extra", "gpgsig"] or sum(1 for k in ("encoding", "extra", "gpgsig") if r.get(k)) <= 1
        lname = ("canonical-order" if canonical else "noncanonical-header-order") + ("+no-blank-line" if layout["no_blank"] else "")
        n += 1
        try:
            c = O.Commit.from_string(text)
            if c.as_raw_string() != text or c.id != oid(b"commit", text):
                viol.append({"sig": "C01/reparse/unchanged-object-serialises-differently/" + lname, "text": text[:400].hex()})
                continue
            f = norm_commit(commit_fields(c))
            if f != norm_commit(r):
                diff = [k_ for k_ in set(f) | set(r) if f.get(k_) != norm_commit(r).get(k_)]
                viol.append({"sig": "C01/reparse/fields-differ/%s/%s" % ("+".join(sorted(diff)[:2]), lname), "text": text[:400].hex()})
                continue
            field = rng.choice(["message", "author", "commit_time", "tree", "committer", "author_timezone"])
            r2 = dict(r)
            if field == "message":
                r2["message"] = b"edited\n"
                if layout["no_blank"]:
                    layout = dict(layout, no_blank=False)
            elif field == "author":
                r2["author"] = b"New Author <n@a>"
            elif field == "committer":
                r2["committer"] = b"New C <n@c>"
            elif field == "commit_time":
                r2["commit_time"] = 12345
            elif field == "tree":
                r2["tree"] = rhex(rng)
            else:
                r2["author_tz"] = 7200
                r2["author_negutc"] = False  # a newly assigned offset is written in its normal spelling
            setattr(c, field, {"message": r2["message"], "author": r2["author"], "committer": r2["committer"], "commit_time": r2["commit_time"],
                               "tree": r2["tree"], "author_timezone": r2["author_tz"]}[field])
            want = print_commit_layout(r2, layout)
            got = c.as_raw_string()
            if got != want:
                viol.append({"sig": "C01/reparse/one-field-edit-changes-other-bytes/%s/%s" % (field, lname), "want": want[:400].hex(), "got": got[:400].hex()})
            elif c.id != oid(b"commit", got):
                viol.append({"sig": "C01/reparse/id-stale-after-edit/" + field})
        except Exception as e:
            viol.append({"sig": "C01/reparse/raises-%s/%s" % (type(e).__name__, lname), "text": text[:400].hex()})
        nt.add("rp:%s:%s" % (lname, "+".join(k for k in ("encoding", "extra", "gpgsig") if r.get(k))))
    return {"viol": dedupe(viol), "stats": {"reparsed": n}, "nontrivial": sorted(nt), "evaluations": n}


def run_git(case):
    """M4: C git as producer/consumer."""
    import dulwich.objects as O
    if "scratch" not in _st:
        _st["scratch"] = core.Scratch("c01-")
    rng = random.Random(case["seed"])
    d = _st["scratch"].sub("g%d" % rng.randrange(10 ** 9))
    viol, nt, stats = [], set(), {}
    try:
        core.git(["init", "-q", "--bare", d])
        items = []  # (type, text, dulwich obj)
        for _ in range(case["n"]):
            kind = rng.choice(["commit", "commit", "tag", "tree", "blob"])
            if kind == "commit":
                r = gen_commit_rec(rng, odd=rng.random() < 0.2)
                items.append((b"commit", ref_commit(r), build_commit(O, r, rng), r))
            elif kind == "tag":
                r = gen_tag_rec(rng)
                items.append((b"tag", ref_tag(r), build_tag(O, r, rng), r))
            elif kind == "tree":
                ents = gen_tree_entries(rng)
                t = O.Tree()
                for e in ents:
                    t.add(*e)
                items.append((b"tree", ref_tree(ents), t, ents))
            else:
                data = bytes(rng.randrange(256) for _ in range(rng.randint(0, 100)))
                items.append((b"blob", data, O.Blob.from_string(data), None))
        # (1) dulwich writes loose objects; git reads them back
        for tname, text, obj, _r in items:
            p = os.path.join(d, "objects", obj.id[:2].decode(), obj.id[2:].decode())
            os.makedirs(os.path.dirname(p), exist_ok=True)
            with open(p, "wb") as f:
                f.write(obj.as_legacy_object())
        r = core.git(["cat-file", "--batch"], cwd=d, input=b"".join(obj.id + b"\n" for _, _, obj, _ in items))
        out = r.stdout
        pos = 0
        for tname, text, obj, _r in items:
            nl = out.index(b"\n", pos)
            hdr = out[pos:nl].split(b" ")
            stats["git_read_dulwich_objects"] = stats.get("git_read_dulwich_objects", 0) + 1
            if len(hdr) != 3 or hdr[1] != tname:
                viol.append({"sig": "C01/git/cat-file-cannot-read-dulwich-object/" + tname.decode(), "hdr": out[pos:nl].decode(errors="replace")})
                pos = nl + 1
                continue
            size = int(hdr[2])
            body = out[nl + 1:nl + 1 + size]
            pos = nl + 1 + size + 1
            if body != obj.as_raw_string() or hdr[0] != obj.id:
                viol.append({"sig": "C01/git/reads-different-bytes-or-id/" + tname.decode()})
        # (2) git hashes the same texts: ids must agree
        for tname in (b"commit", b"tag", b"tree", b"blob"):
            sub = [(t, x, o, r_) for t, x, o, r_ in items if t == tname]
            if not sub:
                continue
            paths = []
            for k, (t, x, o, r_) in enumerate(sub):
                pth = os.path.join(d, "in-%s-%d" % (tname.decode(), k))
                with open(pth, "wb") as f:
                    f.write(x)
                paths.append(pth)
            r = core.git(["hash-object", "-t", tname.decode(), "--literally", "--stdin-paths"], cwd=d, input="\n".join(paths).encode() + b"\n")
            gids = r.stdout.split()
            for (t, x, o, r_), gid in zip(sub, gids):
                stats["git_hashed"] = stats.get("git_hashed", 0) + 1
                if gid != o.id:
                    viol.append({"sig": "C01/git/id-differs-from-git-hash-object/" + tname.decode(), "dulwich": o.id.decode(), "git": gid.decode()})
        # (3) fsck --strict classifies what git accepts; only informational mismatch classes are counted
        fs = core.git(["fsck", "--strict", "--no-dangling", "--no-progress"], cwd=d, check=False)
        bad = set()
        for line in (fs.stdout + fs.stderr).splitlines():
            for tok in line.split():
                if len(tok) >= 40 and all(c in HEX for c in tok[:40]):
                    bad.add(tok[:40])
        stats["fsck_flagged"] = len(bad)
        # (4) trees: git mktree builds the same tree from the same entries (only entries mktree can express)
        for tname, text, obj, ents in items:
            if tname != b"tree" or not ents or any(b"\n" in e[0] or b"\t" in e[0] for e in ents):
                continue
            inp = b"".join(b"%06o %s %s\t%s\0" % (m, b"tree" if m == 0o040000 else b"commit" if m == 0o160000 else b"blob", s, n_) for n_, m, s in ents)
            mk = core.git(["mktree", "-z", "--missing"], cwd=d, input=inp, check=False)
            stats["mktree"] = stats.get("mktree", 0) + 1
            if mk.returncode == 0 and mk.stdout.strip() != obj.id:
                viol.append({"sig": "C01/git/mktree-id-differs", "entries": repr(ents)[:300]})
        # (5) commits made by git commit-tree for the same fields, parsed by dulwich
        for tname, text, obj, r_ in items[:6]:
            if tname != b"commit" or r_.get("gpgsig") or r_.get("extra") or r_.get("mergetags") or r_.get("encoding"):
                continue
            if r_["author_time"] < 0 or r_["commit_time"] < 0 or r_["author_time"] >= 2 ** 62 or r_["commit_time"] >= 2 ** 62:
                continue
            if r_["author_negutc"] or r_["commit_negutc"] or b"\n" not in (r_["message"] or b"") or not (r_["message"] or b"").endswith(b"\n"):
                continue

            def ident(s):
                name, rest = s.split(b"<", 1)
                mail = rest.split(b">", 1)[0]
                return name.strip(), mail
            an, am = ident(r_["author"])
            cn, cm = ident(r_["committer"])
            if r_["author"] != an + b" <" + am + b">" or r_["committer"] != cn + b" <" + cm + b">" or not an or not cn or not am or not cm:
                continue
            # fake parents/tree need real objects for commit-tree: use hash-object route instead; here only trees without parents
            et = core.git(["hash-object", "-t", "tree", "-w", "--stdin"], cwd=d, input=b"").stdout.strip()
            env = {"GIT_AUTHOR_NAME": an.decode("latin1"), "GIT_AUTHOR_EMAIL": am.decode("latin1"), "GIT_COMMITTER_NAME": cn.decode("latin1"),
                   "GIT_COMMITTER_EMAIL": cm.decode("latin1"),
                   "GIT_AUTHOR_DATE": "%d %s" % (r_["author_time"], ref_tz(r_["author_tz"], False).decode()),
                   "GIT_COMMITTER_DATE": "%d %s" % (r_["commit_time"], ref_tz(r_["commit_tz"], False).decode())}
            try:
                ct = core.git(["commit-tree", et.decode()], cwd=d, input=r_["message"], env=env, extra_cfg=["i18n.commitEncoding=utf-8"], check=False)
            except (UnicodeError, ValueError):
                continue
            if ct.returncode != 0:
                continue
            gid = ct.stdout.strip()
            body = core.git(["cat-file", "commit", gid.decode()], cwd=d).stdout
            r3 = dict(r_, tree=et, parents=[])
            c3 = build_commit(O, r3, rng)
            stats["commit_tree_compared"] = stats.get("commit_tree_compared", 0) + 1
            if c3.as_raw_string() != body:
                # git may normalise the message (strips nothing with commit-tree) or the identity (trims) -- compare via parse
                pc = O.Commit.from_string(body)
                if norm_commit(commit_fields(pc)) == norm_commit(r3):
                    viol.append({"sig": "C01/git/commit-tree-bytes-differ-for-same-fields", "git": body[:300].hex(), "dulwich": c3.as_raw_string()[:300].hex()})
                else:
                    stats["commit_tree_git_normalised_fields"] = stats.get("commit_tree_git_normalised_fields", 0) + 1
            elif c3.id != gid:
                viol.append({"sig": "C01/git/commit-tree-id-differs"})
        nt.add("git:%d" % len(items))
    finally:
        shutil.rmtree(d, ignore_errors=True)
    return {"viol": dedupe(viol), "stats": stats, "nontrivial": sorted(nt) + ["git:" + str(case["seed"])], "evaluations": len(items)}


def worker_exit():
    if "scratch" in _st:
        _st["scratch"].cleanup()


def run_case(case):
    return {"build": run_build, "edits": run_edits, "reparse": run_reparse, "git": run_git, "refill": run_refill}[case["kind"]](case)


def main(ctx):
    cases = []
    for i in range(ctx.budget(300, 3000)):
        cases.append({"kind": "build", "seed": "%d/b/%d" % (ctx.seed, i), "n": 300})
    for i in range(ctx.budget(300, 3000)):
        cases.append({"kind": "edits", "seed": "%d/e/%d" % (ctx.seed, i), "n": 150})
    for i in range(ctx.budget(200, 2000)):
        cases.append({"kind": "reparse", "seed": "%d/r/%d" % (ctx.seed, i), "n": 200})
    for i in range(ctx.budget(100, 1000)):
        cases.append({"kind": "refill", "seed": "%d/f/%d" % (ctx.seed, i), "n": 200})
    for i in range(ctx.budget(60, 600)):
        cases.append({"kind": "git", "seed": "%d/g/%d" % (ctx.seed, i), "n": 80})
    ctx.rule = ("objects generated from field records over the quantifier's classes (identities with odd bytes, times to 2^64, every +-HHMM "
                "spelling incl. -0000, 0..8 parents, encoding, folded extra headers, mergetags, PGP/SSH signatures, empty/missing messages, "
                "tags of all four types, trees over prefix-colliding names x 6 modes, blobs in any chunking); setter/observation sequences; "
                "printer layouts. non-trivial = distinct (type, optional-header set, parent count / edit-op set / layout).")
    ctx.assumptions = ["reference serialiser written from gitformat docs; ids from hashlib", "git 2.39.5 hash-object/cat-file/mktree/commit-tree/fsck"]

    def on_result(case, out):
        if out["status"] != "ok":
            if out["status"] == "timeout":
                ctx.inconc("timeout " + case["kind"])
            else:
                ctx.violation("C01/%s/harness-%s/%s" % (case["kind"], out["status"], out.get("exc")), case, out)
            return
        res = out["result"]
        ctx.merge(res)
        for v in res.get("viol", []):
            ctx.violation(v["sig"], case, v)
        ctx.sample(case, case["kind"])

    pool.pmap("vt.checks.c01", cases, timeout=600, on_result=on_result, ext_table=getattr(ctx, "ext_table", None))
    for k in ("objects_built", "edit_steps", "reparsed", "git_hashed", "git_read_dulwich_objects"):
        if not ctx.stats[k]:
            return "monitor never reached: " + k
    return None
