"""C19 — pkt-line and side-band framing under any read chunking.

Monitors:
  frame validator   every byte stream the real encoders emit is walked by an independent validator
                    (4 lowercase/uppercase hex digits, total length <= 65520, exact consumption)
  chunking adversary  the recv()/parse() side of the real decoders is fed the stream in generated
                    partitions (ALL partitions for short streams), recv(n) contract checked (1..n bytes)
  reference decoder independent pkt-line decoder; decoded payload sequences must match
  hostile decode    all 65536 4-hex prefixes + non-hex classes, each with short/exact/long payload:
                    outcome must be frames / GitProtocolError / HangupException, nothing else
  peer              dulwich-encoded request piped into `git upload-pack`; git's advertisement and
                    side-band stream decoded by dulwich under adversarial chunking
"""
import io
import itertools
import os
import random
import subprocess

from vt import core, pool

LEVEL = "exploration"
MAX_FRAME = 65520
HEXD = b"0123456789abcdefABCDEF"


# ------------------------------------------------------------------------------ reference
class RefErr(Exception):
    pass


def ref_decode(data: bytes):
    """-> (frames, end) where frames = list of None(flush)/"D"(delim)/bytes and end in
    {"eof","error"}; error = malformed prefix, length 2/3, or truncated frame."""
    out, i = [], 0
    while i < len(data):
        p = data[i:i + 4]
        if len(p) < 4 or any(c not in HEXD for c in p):
            return out, "error"
        n = int(p, 16)
        if n == 0:
            out.append(None)
            i += 4
        elif n == 1:
            out.append("D")
            i += 4
        elif n < 4:
            return out, "error"
        else:
            if i + n > len(data):
                return out, "error"
            out.append(data[i + 4:i + n])
            i += n
    return out, "eof"


def validate_frames(data: bytes):
    """Strict validator for emitted streams. Returns list of problems (signature fragments)."""
    probs, i = [], 0
    while i < len(data):
        p = data[i:i + 4]
        if len(p) < 4 or any(c not in HEXD for c in p):
            probs.append("length-prefix-not-4-hex")
            break
        n = int(p, 16)
        if n in (0, 1, 2):
            i += 4
            continue
        if n == 3:
            probs.append("length-3")
            break
        if n > MAX_FRAME:
            probs.append("frame-over-65520")
        if i + n > len(data):
            probs.append("frame-truncated")
            break
        i += n
    return probs


# ------------------------------------------------------------------------------ adversary
class Chunker:
    """recv(n) adversary: returns pieces according to a partition (list of cut sizes), then
    arbitrary 1..n sized pieces; records contract breaches."""

    def __init__(self, data, sizes):
        self.data = data
        self.pos = 0
        self.sizes = list(sizes)
        self.calls = 0
        self.bad = []

    def recv(self, n):
        self.calls += 1
        if not isinstance(n, int) or n <= 0:
            self.bad.append("recv-nonpositive-size")
            n = 1
        if self.calls > 10 * len(self.data) + 1000:
            raise RuntimeError("adversary: too many recv calls (decoder does not make progress)")
        k = self.sizes.pop(0) if self.sizes else n
        k = max(1, min(k, n))
        d = self.data[self.pos:self.pos + k]
        self.pos += len(d)
        return d


class FullReader:
    def __init__(self, data):
        self.f = io.BytesIO(data)
        self.bad = []
        self.calls = 0

    def read(self, n=-1):
        self.calls += 1
        if n is None or n < 0:
            self.bad.append("read-negative-size")
            n = 0
        if self.calls > 200000:
            raise RuntimeError("reader: too many read calls")
        return self.f.read(n)


def drain_protocol(proto, max_frames=100000):
    """Read pkt-lines until the decoder stops.  -> (frames, end, exc)"""
    from dulwich.errors import GitProtocolError, HangupException
    frames = []
    for _ in range(max_frames):
        try:
            frames.append(proto.read_pkt_line())
        except HangupException:
            return frames, "eof", None
        except GitProtocolError:
            return frames, "error", None
        except Exception as e:
            return frames, "other", type(e).__name__ + ": " + str(e)[:100]
    return frames, "unbounded", None


def norm_ref(frames):
    """dulwich's read_pkt_line maps delim to None like flush."""
    return [None if f == "D" else f for f in frames]


def decode_all(data, sizes_list, rng):
    """Run every dulwich decoder on data. Yields (decoder, frames, end, exc, bad)."""
    from dulwich.errors import GitProtocolError
    from dulwich.protocol import PktLineParser, Protocol, ReceivableProtocol
    r = FullReader(data)
    p = Protocol(r.read, lambda b: None)
    yield ("Protocol",) + drain_protocol(p) + (r.bad,)
    # with eof()/unread interleaved
    r = FullReader(data)
    p = Protocol(r.read, lambda b: None)
    frames, end, exc = [], None, None
    from dulwich.errors import HangupException
    for _ in range(100000):
        try:
            if p.eof():
                end = "eof"
                break
            frames.append(p.read_pkt_line())
        except HangupException:
            end = "eof"
            break
        except GitProtocolError:
            end = "error"
            break
        except Exception as e:
            end, exc = "other", type(e).__name__ + ": " + str(e)[:100]
            break
    yield ("Protocol+eof", frames, end, exc, r.bad)
    for sizes in sizes_list:
        c = Chunker(data, sizes)
        p = ReceivableProtocol(c.recv, lambda b: None, rbufsize=rng.choice([1, 3, 7, 64, 65536]))
        yield ("ReceivableProtocol",) + drain_protocol(p) + (c.bad,)
        # PktLineParser
        got = []
        parser = PktLineParser(got.append)
        pos, end, exc = 0, "eof", None
        szs = list(sizes)
        try:
            while pos < len(data):
                k = max(1, szs.pop(0)) if szs else rng.randint(1, 9)
                parser.parse(data[pos:pos + k])
                pos += k
            if parser.get_tail():
                end = "tail"
        except GitProtocolError:
            end = "error"
        except Exception as e:
            end, exc = "other", type(e).__name__ + ": " + str(e)[:100]
        yield ("PktLineParser", got, end, exc, [])


def frame_boundaries(data):
    out, i = [], 0
    while i < len(data):
        p = data[i:i + 4]
        if len(p) < 4 or any(c not in HEXD for c in p):
            break
        n = int(p, 16)
        i += 4 if n < 4 else n
        out.append(i)
    return out


def partitions(n, rng, limit, data=None):
    """All compositions of n if 2^(n-1) <= limit, else a sample: 1-byte reads (short streams only), whole,
    fixed strides, and *boundary-straddling* partitions with single-byte reads around every frame boundary."""
    if n <= 1:
        return [[n]] if n else [[]], True
    if 2 ** (n - 1) <= limit:
        out = []
        for mask in range(2 ** (n - 1)):
            sizes, cur = [], 1
            for b in range(n - 1):
                if mask >> b & 1:
                    sizes.append(cur)
                    cur = 1
                else:
                    cur += 1
            sizes.append(cur)
            out.append(sizes)
        return out, True
    out = [[n]]
    if n <= 3000:
        out += [[1] * n, [4] * (n // 4 + 1), [3] * (n // 3 + 1), [5] * (n // 5 + 1)]
    bounds = frame_boundaries(data) if data is not None else []
    for _ in range(limit):
        cuts = set()
        for b in bounds[:200]:
            for d in range(-5, 7):
                if rng.random() < 0.6:
                    cuts.add(b + d)
        for _ in range(rng.randint(0, 20)):
            cuts.add(rng.randrange(1, n))
        cuts = sorted(c for c in cuts if 0 < c < n)
        sizes, prev = [], 0
        for c in cuts:
            sizes.append(c - prev)
            prev = c
        sizes.append(n - prev)
        out.append(sizes)
    return out, False


# ------------------------------------------------------------------------------ cases
def payload_from_spec(spec, rng):
    if spec is None or spec == "D":
        return spec
    n = spec
    if n <= 64:
        return bytes(rng.randrange(256) for _ in range(n))
    return bytes([rng.randrange(256)]) * n


def run_rt(case):
    """Round trip of a payload sequence through the real encoders and decoders."""
    from dulwich.protocol import BufferedPktLineWriter, Protocol, pkt_line, pkt_seq
    rng = random.Random(case["seed"])
    seq = [payload_from_spec(s, rng) for s in case["spec"]]
    viol, stats = [], {}
    enc = case.get("enc", "pkt_line")
    out = io.BytesIO()
    accepted = []
    for p in seq:
        try:
            if p == "D":
                out.write(b"0001")
                accepted.append(None)
                continue
            if enc == "pkt_line":
                out.write(pkt_line(p))
            elif enc == "protocol":
                Protocol(lambda n: b"", out.write).write_pkt_line(p)
            elif enc == "buffered":
                if p is None:
                    out.write(pkt_line(None))
                else:
                    w = BufferedPktLineWriter(out.write, bufsize=case.get("bufsize", 65515))
                    w.write(p)
                    w.flush()
            accepted.append(p)
        except Exception as e:
            stats["encoder_refused"] = stats.get("encoder_refused", 0) + 1
            if p is not None and len(p) <= MAX_FRAME - 4:
                viol.append({"sig": "C19/encode/refused-legal-payload/" + type(e).__name__, "len": len(p)})
    data = out.getvalue()
    for pr in validate_frames(data):
        big = max([len(p) for p in seq if isinstance(p, bytes)] or [0])
        viol.append({"sig": "C19/encode/" + pr, "enc": enc, "max_payload": big})
    # buffered writer over the whole sequence with one writer (buffer hand-over)
    if enc == "buffered":
        out2 = io.BytesIO()
        w = BufferedPktLineWriter(out2.write, bufsize=case.get("bufsize", 65515))
        exp2 = []
        try:
            for p in accepted:
                if p is None:
                    continue
                w.write(p)
                exp2.append(p)
            w.flush()
            fr, end = ref_decode(out2.getvalue())
            if end != "eof" or fr != exp2:
                viol.append({"sig": "C19/buffered-writer/stream-differs", "bufsize": case.get("bufsize")})
        except Exception as e:
            viol.append({"sig": "C19/buffered-writer/raise/" + type(e).__name__})
    if validate_frames(data):
        return {"viol": viol, "stats": stats, "evaluations": 1, "nontrivial": []}
    parts, exh = partitions(len(data), rng, case.get("plimit", 24), data)
    want = list(accepted)
    n = 0
    for dec, frames, end, exc, bad in decode_all(data, parts, rng):
        n += 1
        for b in bad:
            viol.append({"sig": "C19/decode/%s/%s" % (dec, b)})
        if exc:
            viol.append({"sig": "C19/decode/%s/unexpected-exception" % dec, "exc": exc})
        elif dec == "PktLineParser" and "D" in case["spec"]:
            if end != "error":
                pass
        elif frames != want or end != "eof":
            viol.append({"sig": "C19/roundtrip/%s/payloads-differ" % dec, "end": end,
                         "n_want": len(want), "n_got": len(frames),
                         "first_diff": next((i for i, (a, b) in enumerate(zip(frames, want)) if a != b), None)})
    stats["decoder_runs"] = n
    stats["partitions"] = len(parts)
    if exh:
        stats["streams_with_all_partitions"] = 1
    return {"viol": viol, "stats": stats, "evaluations": n,
            "nontrivial": ["rt:%s:%s:%d" % (enc, ",".join(str(s) for s in case["spec"][:6]), len(parts))]}


def run_mixed(case):
    """pkt-lines followed by raw bytes read with read()/recv() on a ReceivableProtocol (pack data after
    negotiation): buffer hand-over between read_pkt_line/read/recv under chunking."""
    from dulwich.protocol import ReceivableProtocol, pkt_line
    rng = random.Random(case["seed"])
    viol = []
    script, stream = [], b""
    for _ in range(rng.randint(2, 10)):
        if rng.random() < 0.5:
            p = None if rng.random() < 0.2 else bytes(rng.randrange(256) for _ in range(rng.choice([0, 1, 2, 5, 40, 300])))
            stream += pkt_line(p)
            script.append(("pkt", p))
        else:
            raw = bytes(rng.randrange(256) for _ in range(rng.choice([1, 2, 3, 4, 5, 9, 64, 500])))
            stream += raw
            script.append((rng.choice(["read", "recv"]), raw))
    sizes = [rng.choice([1, 2, 3, 5, 8, 13, 100]) for _ in range(len(stream))]
    c = Chunker(stream, sizes)
    p = ReceivableProtocol(c.recv, lambda b: None, rbufsize=rng.choice([1, 2, 5, 64, 65536]))
    try:
        for i, (op, want) in enumerate(script):
            if op == "pkt":
                got = p.read_pkt_line()
            elif op == "read":
                got = p.read(len(want))
            else:
                got = b""
                guard = 0
                while len(got) < len(want) and guard < 10000:
                    guard += 1
                    d = p.recv(len(want) - len(got))
                    if len(d) > len(want) - len(got):
                        viol.append({"sig": "C19/recv/returned-more-than-asked"})
                    if not d:
                        break
                    got += d
            if got != want:
                viol.append({"sig": "C19/mixed/%s-returned-wrong-bytes" % op, "step": i,
                             "script": [s[0] for s in script]})
                break
    except Exception as e:
        viol.append({"sig": "C19/mixed/raise/" + type(e).__name__, "msg": str(e)[:100]})
    for b in c.bad:
        viol.append({"sig": "C19/mixed/" + b})
    return {"viol": viol, "stats": {"mixed_scripts": 1, "recv_calls": c.calls}, "evaluations": 1,
            "nontrivial": ["mixed:" + "".join(s[0][0] + s[0][2] for s in script)]}


def run_sideband(case):
    from dulwich.client import _read_side_band64k_data
    from dulwich.protocol import Protocol, ReceivableProtocol
    rng = random.Random(case["seed"])
    viol = []
    out = io.BytesIO()
    pw = Protocol(lambda n: b"", out.write)
    want = {1: b"", 2: b"", 3: b""}
    order = []
    for ch, n in case["writes"]:
        blob = bytes([rng.randrange(256)]) * n if n > 64 else bytes(rng.randrange(256) for _ in range(n))
        pw.write_sideband(ch, blob)
        want[ch] += blob
        order.append((ch, n))
    pw.write_pkt_line(None)
    data = out.getvalue()
    for pr in validate_frames(data):
        viol.append({"sig": "C19/sideband/encode/" + pr})
    fr, end = ref_decode(data)
    if any(isinstance(f, bytes) and len(f) > 65516 for f in fr):
        viol.append({"sig": "C19/sideband/encode/payload-over-65516"})
    if any(isinstance(f, bytes) and len(f) <= 1 for f in fr):
        viol.append({"sig": "C19/sideband/encode/empty-sideband-frame"})
    parts, _ = partitions(len(data), rng, 4, data)
    n = 0
    for sizes in parts:
        c = Chunker(data, sizes)
        pr = ReceivableProtocol(c.recv, lambda b: None)
        got = {1: b"", 2: b"", 3: b""}
        try:
            for ch, d in _read_side_band64k_data(pr.read_pkt_seq()):
                got[ch] = got.get(ch, b"") + d
        except Exception as e:
            viol.append({"sig": "C19/sideband/decode/raise/" + type(e).__name__})
            continue
        n += 1
        if got != want:
            viol.append({"sig": "C19/sideband/roundtrip/channel-data-differs", "writes": order})
    return {"viol": viol, "stats": {"sideband_streams": 1, "sideband_decodes": n}, "evaluations": n,
            "nontrivial": ["sb:" + ",".join("%d/%d" % w for w in order)]}


def run_report(case):
    """pkt-lines nested in side-band channel 1 (the report-status a receive-pack server sends): the inner pkt-line stream is cut into
    side-band frames at arbitrary points (every 2-way cut for short reports, random multi-way cuts, progress frames in between, and
    dulwich's own write_sideband framing for reports beyond one frame), the outer stream is cut into arbitrary recv chunks, and the
    client's decoder (GitClient._handle_receive_pack_tail) must return exactly the statuses that were encoded."""
    from dulwich.client import ReportStatusParser, TCPGitClient
    from dulwich.protocol import Protocol, ReceivableProtocol
    rng = random.Random(case["seed"])
    viol, n = [], 0
    nrefs = case["nrefs"]
    want, inner = {}, [b"unpack ok\n"]
    for i in range(nrefs):
        ref = b"refs/heads/" + (b"b%d" % i if nrefs <= 64 else b"branch-with-a-longer-name-%06d" % i)
        if rng.random() < 0.3:
            reason = rng.choice([b"non-fast-forward", b"failed to lock", b"hook declined", b"x"])
            inner.append(b"ng " + ref + b" " + reason + b"\n")
            want[ref] = reason.decode()
        else:
            inner.append(b"ok " + ref + b"\n")
            want[ref] = None
    stream = b"".join(b"%04x" % (len(x) + 4) + x for x in inner) + b"0000"
    N = len(stream)
    cutsets = [[]]
    if N <= 120:
        cutsets += [[c] for c in range(1, N)]
    for _ in range(case.get("random_cuts", 12)):
        cutsets.append(sorted(set(rng.randrange(1, N) for _ in range(rng.randint(1, 6)))))
    framings = [("harness", cs) for cs in cutsets]
    if N > 60000:
        framings = [("dulwich-write_sideband", None)] + framings[:4]
    for who, cs in framings:
        out = io.BytesIO()
        if who == "harness":
            prev = 0
            for c in cs + [N]:
                piece = stream[prev:c]
                prev = c
                for a in range(0, len(piece), 65515):
                    out.write(b"%04x" % (len(piece[a:a + 65515]) + 5) + b"\x01" + piece[a:a + 65515])
                if rng.random() < 0.3:
                    msg = b"remote: progress %d\r" % rng.randrange(100)
                    out.write(b"%04x" % (len(msg) + 5) + b"\x02" + msg)
            out.write(b"0000")
        else:
            pw = Protocol(lambda n_: b"", out.write)
            pw.write_sideband(1, stream)
            pw.write_pkt_line(None)
        data = out.getvalue()
        parts, _ = partitions(len(data), rng, 2, data)
        for sizes in parts[:4]:
            c = Chunker(data, sizes)
            pr = ReceivableProtocol(c.recv, lambda b: None)
            cl = TCPGitClient("127.0.0.1")
            cl._report_status_parser = ReportStatusParser()
            n += 1
            try:
                got = cl._handle_receive_pack_tail(pr, {b"side-band-64k", b"report-status"}, lambda b: None)
            except Exception as e:
                viol.append({"sig": "C19/report-status/%s-framing/raises-%s" % (who, type(e).__name__), "cuts": cs, "nrefs": nrefs, "msg": str(e)[:100]})
                continue
            if got != want:
                viol.append({"sig": "C19/report-status/%s-framing/statuses-differ" % who, "cuts": cs, "nrefs": nrefs,
                             "missing": len(set(want) - set(got or {})), "extra": len(set(got or {}) - set(want))})
    return {"viol": viol[:20], "stats": {"report_status_decodes": n}, "evaluations": n,
            "nontrivial": ["report:%d:%s" % (nrefs, "multi-frame" if N > 65515 else "one-frame")]}


NONHEX = [b"+00a", b"-00a", b" 00a", b"00a ", b"0x0a", b"0_0a", b"00_a", b"000g", b"zzzz", b"\x00\x00\x00\x04",
          b"0005"[:3], b"00", b"0", b"000\n", b"\n000", b"00\t5", b"\xef\xbc\x90005", b"0005"[::-1], b"  05", b"1e+1",
          b"00.5", b"0X05", "\u0660\u0660".encode(), b"000A", b"000a", b"00Aa", b"FFFF", b"ffff", b"fFfF"]


def run_hostile(case):
    """Arbitrary / hostile byte strings into every decoder."""
    rng = random.Random(case["seed"])
    viol, stats = [], {}
    streams = []
    if "prefix_range" in case:
        a, b = case["prefix_range"]
        for v in range(a, b):
            pre = b"%04x" % v
            if rng.random() < 0.5:
                pre = pre.upper()
            need = max(0, v - 4)
            for have in {0, max(0, need - 1), need, need + 5}:
                streams.append(pre + b"x" * have)
    else:
        for pre in NONHEX:
            for tail in (b"", b"a", b"abcdefgh", b"0000"):
                streams.append(pre + tail)
                streams.append(b"0005a" + pre + tail)
        for _ in range(case.get("nrandom", 200)):
            n = rng.randint(0, 14)
            streams.append(bytes(rng.choice(b"0123456789abcdefABCDEFxg \n+-_\x00\xff") for _ in range(n)))
    n = 0
    for data in streams:
        want, wend = ref_decode(data)
        want_n = norm_ref(want)
        if len(data) <= 64:
            sizes = [[1] * len(data), [rng.randint(1, 6) for _ in range(len(data))]]
        else:
            sizes = [[rng.randint(1, 5) for _ in range(8)] + [rng.choice([4096, 65536])] * 40]
        for dec, frames, end, exc, bad in decode_all(data, sizes, rng):
            n += 1
            for b in bad:
                viol.append({"sig": "C19/hostile/%s/%s" % (dec, b), "data": core.hx(data[:40])})
            if exc or end in ("other", "unbounded"):
                viol.append({"sig": "C19/hostile/%s/non-protocol-exception" % dec, "exc": exc,
                             "data": core.hx(data[:40]), "len": len(data)})
                continue
            if dec == "PktLineParser":
                # delim (0001) is a protocol error for this parser; frames must be a prefix of the reference
                if frames != want_n[:len(frames)]:
                    viol.append({"sig": "C19/hostile/PktLineParser/frames-differ-from-reference", "data": core.hx(data[:40])})
                if wend == "eof" and "D" not in want and (frames != want_n or end != "eof"):
                    viol.append({"sig": "C19/hostile/PktLineParser/valid-stream-not-fully-decoded", "data": core.hx(data[:40])})
                continue
            if frames != want_n[:len(frames)] or (wend == "eof" and (frames != want_n or end != "eof")) or (
                    wend == "error" and end != "error"):
                # a truncated 4-byte prefix of length 0 at EOF is a hang-up, everything else an error
                viol.append({"sig": "C19/hostile/%s/outcome-differs-from-reference" % dec, "data": core.hx(data[:40]),
                             "len": len(data), "ref_end": wend, "end": end, "n_ref": len(want), "n_got": len(frames)})
    stats["hostile_streams"] = len(streams)
    stats["hostile_decoder_runs"] = n
    key = "hostile:%s" % (case.get("prefix_range") or "nonhex")
    return {"viol": viol, "stats": stats, "evaluations": n, "nontrivial": [key]}


REF_CH = [c for c in range(0x21, 0x100) if c not in b"~^:?*[\\\x7f"]


def run_caps(case):
    """Capability lists and ref advertisements survive format -> pkt-line -> parse."""
    from dulwich.client import _extract_symrefs_and_agent, read_pkt_refs_v1
    from dulwich.protocol import (Protocol, extract_capabilities, extract_want_line_capabilities, format_ref_line,
                                  parse_capability, pkt_line, symref_capabilities, format_cmd_pkt, parse_cmd_pkt)
    rng = random.Random(case["seed"])
    viol = []

    def tok(lo=1, hi=12, chars=REF_CH):
        return bytes(rng.choice(chars) for _ in range(rng.randint(lo, hi)))

    caps = []
    for _ in range(rng.randint(0, 8)):
        c = tok(chars=[x for x in REF_CH if x != ord("=")])
        if rng.random() < 0.4:
            c += b"=" + tok(0, 10)
        caps.append(c)
    symrefs = [(b"HEAD", b"refs/heads/" + tok(chars=[x for x in REF_CH if x != ord(":")]))] if rng.random() < 0.5 else []
    allcaps = caps + symref_capabilities(symrefs)
    refs = {}
    for _ in range(rng.randint(1, 6)):
        refs[b"refs/" + tok()] = bytes(rng.choice(b"0123456789abcdef") for _ in range(40))
    out = io.BytesIO()
    first = True
    for r, s in refs.items():
        out.write(pkt_line(format_ref_line(r, s, allcaps if first else None)))
        first = False
    out.write(pkt_line(None))
    data = out.getvalue()
    for pr in validate_frames(data):
        viol.append({"sig": "C19/caps/encode/" + pr})
    try:
        p = Protocol(io.BytesIO(data).read, lambda b: None)
        grefs, gcaps = read_pkt_refs_v1(p.read_pkt_seq())
        if dict(grefs) != refs:
            viol.append({"sig": "C19/caps/ref-advertisement-differs"})
        if gcaps != set(allcaps):
            viol.append({"sig": "C19/caps/capability-set-differs", "want": repr(sorted(allcaps))[:200], "got": repr(sorted(gcaps))[:200]})
        sy, agent = _extract_symrefs_and_agent(gcaps)
        if dict(sy) != dict(symrefs):
            viol.append({"sig": "C19/caps/symref-capability-differs"})
    except Exception as e:
        viol.append({"sig": "C19/caps/raise/" + type(e).__name__, "msg": str(e)[:100]})
    # ordered list through extract_capabilities
    line = format_ref_line(b"refs/heads/x", b"1" * 40, allcaps)
    t, c2 = extract_capabilities(line)
    if allcaps and (c2 != allcaps or t != b"1" * 40 + b" refs/heads/x"):
        viol.append({"sig": "C19/caps/extract_capabilities-differs"})
    for c in allcaps:
        k, v = parse_capability(c)
        if (k + b"=" + v if v is not None else k) != c:
            viol.append({"sig": "C19/caps/parse_capability-differs"})
    # want line
    want = b"want " + b"2" * 40 + b"".join(b" " + c for c in caps) + b"\n"
    t, c3 = extract_want_line_capabilities(want)
    if caps and (c3 != caps or t != b"want " + b"2" * 40):
        viol.append({"sig": "C19/caps/want-line-capabilities-differ"})
    # cmd pkt
    args = [tok(0, 9, [x for x in range(1, 256)]) for _ in range(rng.randint(1, 3))]
    cmd = tok(1, 9, [x for x in REF_CH])
    try:
        if parse_cmd_pkt(format_cmd_pkt(cmd, *args)) != (cmd, args):
            viol.append({"sig": "C19/caps/cmd-pkt-differs"})
    except Exception as e:
        viol.append({"sig": "C19/caps/cmd-pkt-raise/" + type(e).__name__})
    return {"viol": viol, "stats": {"caps_cases": 1}, "evaluations": 1,
            "nontrivial": ["caps:%d:%d:%d" % (len(caps), len(symrefs), len(refs))]}


_scratch = None


def run_peer(case):
    """git as peer: (a) dulwich-encoded v0 fetch request piped into git upload-pack (git dies on bad framing);
    (b) git's advertisement + side-band-64k pack stream decoded by dulwich under adversarial chunking."""
    global _scratch
    from dulwich.client import _read_side_band64k_data, read_pkt_refs_v1
    from dulwich.protocol import ReceivableProtocol, pkt_line
    if _scratch is None:
        _scratch = core.Scratch("c19-")
    rng = random.Random(case["seed"])
    d = _scratch.sub("peer%d" % rng.randrange(10 ** 9))
    viol = []
    try:
        core.git(["init", "-q", d])
        blob = os.urandom(case.get("blob", 70000))
        with open(os.path.join(d, "f"), "wb") as f:
            f.write(blob)
        core.git(["add", "f"], cwd=d)
        core.git(["commit", "-q", "-m", "m"], cwd=d)
        head = core.git(["rev-parse", "HEAD"], cwd=d).stdout.strip()
        caps = b"side-band-64k ofs-delta agent=" + bytes(rng.choice(REF_CH[:90]) for _ in range(rng.randint(1, 40)))
        req = pkt_line(b"want " + head + b" " + caps + b"\n") + pkt_line(None) + pkt_line(b"done\n")
        for pr in validate_frames(req):
            viol.append({"sig": "C19/peer/request/" + pr})
        r = subprocess.run(["git", "upload-pack", d], input=req, stdout=subprocess.PIPE, stderr=subprocess.PIPE,
                           env=core.git_env(), timeout=60)
        if r.returncode != 0:
            viol.append({"sig": "C19/peer/git-upload-pack-rejected-dulwich-request", "stderr": r.stderr.decode(errors="replace")[-200:]})
            return {"viol": viol, "stats": {}, "evaluations": 1}
        data = r.stdout
        want, wend = ref_decode(data)
        n = 0
        for sizes in ([1] * 3000, [rng.choice([1, 2, 3, 4, 5, 100, 4000, 65520]) for _ in range(5000)], [65536] * 10):
            c = Chunker(data, sizes)
            p = ReceivableProtocol(c.recv, lambda b: None, rbufsize=rng.choice([1, 5, 4096, 65536]))
            refs, scaps = read_pkt_refs_v1(p.read_pkt_seq())
            nak = p.read_pkt_line()
            chans = {}
            for ch, dd in _read_side_band64k_data(p.read_pkt_seq()):
                chans[ch] = chans.get(ch, b"") + dd
            n += 1
            # reference split
            i = want.index(None)
            rest = want[i + 1:]
            rnak = rest[0]
            rch = {}
            for f in rest[1:]:
                if f is None:
                    break
                rch[f[0]] = rch.get(f[0], b"") + f[1:]
            if nak != rnak or chans != rch or not chans.get(1, b"").startswith(b"PACK"):
                viol.append({"sig": "C19/peer/git-stream-decoded-differently-under-chunking"})
            if refs.get(b"HEAD") != head:
                viol.append({"sig": "C19/peer/advertisement-differs"})
    finally:
        import shutil
        shutil.rmtree(d, ignore_errors=True)
    return {"viol": viol, "stats": {"peer_streams": 1, "peer_decodes": n, "peer_stream_bytes": len(data)},
            "evaluations": n, "nontrivial": ["peer:%d" % (len(data) // 1000)]}


def worker_exit():
    if _scratch:
        _scratch.cleanup()


def run_case(case):
    return {"rt": run_rt, "mixed": run_mixed, "sideband": run_sideband, "hostile": run_hostile,
            "caps": run_caps, "peer": run_peer, "report": run_report}[case["kind"]](case)


# ------------------------------------------------------------------------------ main
SIZES = [0, 1, 2, 5, 100, 65515, 65516, 65517, 65519, 65520, 65531, 65532, 70000, 200000]


def main(ctx):
    cases = []
    rng = ctx.sub_rng("gen")
    # short streams, ALL partitions (<= 15 bytes): exhaustive chunking
    short_specs = [[1, None], [0, 1], [None, None, 1], [2, 0, None], [1, "D", 1], [3, None, 0], [0], [None], [1, 1, 1],
                   [0, 0, 0], [5, None], [7], [2, 2], [None, 3]]
    for enc in ("pkt_line", "protocol", "buffered"):
        for sp in short_specs:
            if enc != "pkt_line" and "D" in sp:
                continue
            cases.append({"kind": "rt", "seed": "%d/s/%s" % (ctx.seed, sp), "spec": sp, "enc": enc, "plimit": 1 << 15})
    # boundary sizes
    for enc in ("pkt_line", "protocol", "buffered"):
        for s in SIZES:
            cases.append({"kind": "rt", "seed": "%d/b/%d" % (ctx.seed, s), "spec": [s, None, 1], "enc": enc, "plimit": 6,
                          "bufsize": rng.choice([1, 10, 65515, 100000])})
    for i in range(ctx.budget(400, 4000)):
        sp = [rng.choice([None, 0, 1, 2, 3, 4, 10, 100, 1000, 65515, 65516]) for _ in range(rng.randint(1, 8))]
        cases.append({"kind": "rt", "seed": "%d/r/%d" % (ctx.seed, i), "spec": sp, "plimit": 8,
                      "enc": rng.choice(["pkt_line", "protocol", "buffered"]), "bufsize": rng.choice([1, 7, 100, 65515])})
    for i in range(ctx.budget(1500, 20000)):
        cases.append({"kind": "mixed", "seed": "%d/m/%d" % (ctx.seed, i)})
    for s in SIZES:
        for ch in (1, 2, 3):
            cases.append({"kind": "sideband", "seed": "%d/sb/%d/%d" % (ctx.seed, s, ch), "writes": [[ch, s], [1, 3]]})
    for i in range(ctx.budget(60, 600)):
        cases.append({"kind": "sideband", "seed": "%d/sbr/%d" % (ctx.seed, i),
                      "writes": [[rng.choice([1, 2, 3]), rng.choice(SIZES + [131030, 131031, 300])]
                                 for _ in range(rng.randint(1, 5))]})
    for i in range(ctx.budget(40, 400)):
        cases.append({"kind": "report", "seed": "%d/rs/%d" % (ctx.seed, i), "nrefs": rng.choice([0, 1, 1, 2, 3, 5, 40])})
    for i in range(ctx.budget(2, 12)):
        cases.append({"kind": "report", "seed": "%d/rsl/%d" % (ctx.seed, i), "nrefs": rng.choice([1800, 2500, 4000]), "random_cuts": 3})
    step = 1024
    for a in range(0, 65536, step):
        cases.append({"kind": "hostile", "seed": "%d/h/%d" % (ctx.seed, a), "prefix_range": [a, a + step]})
    for i in range(ctx.budget(20, 300)):
        cases.append({"kind": "hostile", "seed": "%d/hn/%d" % (ctx.seed, i), "nrandom": 300})
    for i in range(ctx.budget(1500, 20000)):
        cases.append({"kind": "caps", "seed": "%d/c/%d" % (ctx.seed, i)})
    for i in range(ctx.budget(6, 40)):
        cases.append({"kind": "peer", "seed": "%d/p/%d" % (ctx.seed, i), "blob": rng.choice([10, 70000, 200000])})
    ctx.rule = ("rt: payload sequences over sizes %s, flush/delim, three encoders; short streams (<=15 bytes) under ALL "
                "2^(n-1) read partitions, longer under 1-byte/whole/random partitions; hostile: ALL 65536 hex prefixes x "
                "4 payload lengths + non-hex classes. non-trivial = distinct (encoder, size pattern, #partitions) / "
                "distinct prefix block / distinct script shape." % SIZES)
    ctx.explanation = ("exhaustive sub-spaces: every partition of the 38 short streams; every 4-hex-digit length prefix "
                       "with payload too short/exact/too long through Protocol, Protocol+eof/unread, ReceivableProtocol "
                       "and PktLineParser")
    ctx.exhaustive = False
    ctx.assumptions = ["flush and delim both decode to None in Protocol.read_pkt_line (documented dulwich API); "
                       "PktLineParser treats delim as protocol error (it only parses report-status)",
                       "frames longer than git's LARGE_PACKET_MAX (65520) count as malformed when emitted, are tolerated when decoded"]

    def on_result(case, out):
        if out["status"] != "ok":
            if out["status"] == "timeout":
                ctx.violation("C19/%s/decoder-hang-or-timeout" % case["kind"], case, out)
            else:
                ctx.violation("C19/%s/worker-%s/%s" % (case["kind"], out["status"], out.get("exc") or out.get("signal")), case, out)
            return
        res = out["result"]
        ctx.merge(res)
        for v in res.get("viol", []):
            ctx.violation(v["sig"], case, v)
        ctx.sample(case, case["kind"])

    pool.pmap("vt.checks.c19", cases, timeout=600, on_result=on_result)
    if ctx.stats["hostile_streams"] < 65536 * 3:
        return "hostile prefix sweep incomplete (%d streams)" % ctx.stats["hostile_streams"]
    if not ctx.stats["streams_with_all_partitions"]:
        return "no stream was decoded under all partitions"
    return None
