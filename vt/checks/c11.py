"""C11 — index file round trip, ordering, checksum, agreement with C git.

Monitors:
  (a) dulwich write -> dulwich read (entries, flags, conflict stages, extended bits, unknown extensions)
  (b) independent reference decoder (vt-local, from gitformat-index: git's varint, 12-bit name length
      saturation, padding, v4 prefix compression, sort order, trailer) over the bytes dulwich wrote;
      the decoder is validated on git-written indexes in the same run
  (c) C git reads dulwich's file: ls-files --stage --debug -z, and must not die in `git status`
  (d) git writes (update-index --index-info / --index-version / --skip-worktree / --split-index, add -N,
      index.skipHash) -> dulwich reads -> dulwich rewrites -> git reads again
  (e) every single-byte corruption and truncation of a small index must raise (checksum)
"""
import hashlib
import io
import os
import random
import shutil
import struct

from vt import core, pool

LEVEL = "exploration"
_st = {}


# ------------------------------------------------------------------------------ reference codec
class IdxFormatError(Exception):
    pass


def git_varint_decode(data, pos):
    c = data[pos]
    pos += 1
    val = c & 127
    while c & 128:
        val += 1
        c = data[pos]
        pos += 1
        val = (val << 7) + (c & 127)
    return val, pos


def ref_decode_index(data, hash_len=20, skip_hash_ok=False):
    """-> dict(version, entries=[dict], extensions=[(sig, data)], problems=[...])"""
    probs = []
    if data[:4] != b"DIRC":
        raise IdxFormatError("bad signature")
    version, n = struct.unpack(">LL", data[4:12])
    pos = 12
    entries = []
    prev = b""
    end = len(data) - hash_len
    for _ in range(n):
        start = pos
        if pos + 62 > end:
            raise IdxFormatError("truncated entry")
        (cs, cns, ms, mns, dev, ino, mode, uid, gid, size) = struct.unpack(">10L", data[pos:pos + 40])
        sha = data[pos + 40:pos + 60]
        (flags,) = struct.unpack(">H", data[pos + 60:pos + 62])
        pos += 62
        ext = 0
        if flags & 0x4000:
            if version < 3:
                probs.append("extended flag in version < 3")
            (ext,) = struct.unpack(">H", data[pos:pos + 2])
            pos += 2
        namelen = flags & 0xFFF
        if version >= 4:
            strip, pos = git_varint_decode(data, pos)
            nul = data.index(b"\0", pos)
            if strip > len(prev):
                raise IdxFormatError("v4 strip length %d > previous path length %d" % (strip, len(prev)))
            name = prev[:len(prev) - strip] + data[pos:nul]
            pos = nul + 1
        else:
            if namelen < 0xFFF:
                name = data[pos:pos + namelen]
                pos += namelen
            else:
                nul = data.index(b"\0", pos)
                name = data[pos:nul]
                pos = nul
            elen = pos - start
            padded = (elen + 8) & ~7
            pad = data[pos:start + padded]
            if pad != b"\0" * len(pad) or not (1 <= len(pad) <= 8):
                probs.append("bad padding after entry %r" % name[:40])
            pos = start + padded
        if namelen != min(len(name), 0xFFF):
            probs.append("name length field %d for a %d-byte name" % (namelen, len(name)))
        prev = name
        entries.append({"name": name, "ctime": (cs, cns), "mtime": (ms, mns), "dev": dev, "ino": ino, "mode": mode, "uid": uid, "gid": gid,
                        "size": size, "sha": sha.hex(), "stage": (flags >> 12) & 3, "valid": bool(flags & 0x8000), "ext": ext})
    keys = [(e["name"], e["stage"]) for e in entries]
    if keys != sorted(keys):
        probs.append("entries not sorted by (path, stage)")
    if len(set(keys)) != len(keys):
        probs.append("duplicate (path, stage)")
    exts = []
    while pos < end:
        if pos + 8 > end:
            probs.append("garbage before trailer")
            break
        sig = data[pos:pos + 4]
        (sz,) = struct.unpack(">L", data[pos + 4:pos + 8])
        if pos + 8 + sz > end:
            probs.append("extension overruns trailer")
            break
        exts.append((sig, data[pos + 8:pos + 8 + sz]))
        pos += 8 + sz
    trailer = data[end:]
    if trailer != hashlib.sha1(data[:end]).digest():
        if not (skip_hash_ok and trailer == b"\0" * hash_len):
            probs.append("trailer checksum mismatch")
    return {"version": version, "entries": entries, "extensions": exts, "problems": probs}


# ------------------------------------------------------------------------------ generators
def rhex(rng):
    return ("%040x" % rng.getrandbits(160)).encode()


def gen_paths(rng, n):
    out = set()
    shapes = ["plain", "shared", "long", "nonutf8", "boundary", "deep"]
    base = b"dir/" + b"p" * rng.choice([0, 10, 120, 125, 126, 127, 128, 129, 200, 300])
    while len(out) < n:
        s = rng.choice(shapes)
        if s == "plain":
            p = rng.choice([b"a", b"b", b"a.c", b"a/b", b"a-b", b"A", b"z/z/z", b"\xc3\xa9", b"a b", b"a\tb", b"a\nb", b'q"uote'])
        elif s == "shared":
            p = base + b"/" + bytes(rng.choice(b"abcxyz") for _ in range(rng.randint(1, 4)))
        elif s == "long":
            p = b"L/" + b"x" * rng.choice([0xFFC, 0xFFD, 0xFFE, 0xFFF, 0x1000, 0x1001, 0x2000]) + bytes([rng.choice(b"abc")])
        elif s == "nonutf8":
            p = bytes(rng.choice([0xFF, 0xFE, 0x80, 0xC3, 0x28, 0x61]) for _ in range(rng.randint(1, 6)))
        elif s == "boundary":
            # v4 strip lengths crossing 127/128 and 16383/16384 relative to a long sibling
            k = rng.choice([126, 127, 128, 129, 255, 256, 16383, 16384])
            p = rng.choice([b"s/" + b"m" * k + b"/1", b"s/n"])
        else:
            p = b"/".join(bytes([rng.choice(b"abc")]) for _ in range(rng.randint(2, 12)))
        if p and not p.startswith(b"/") and not p.endswith(b"/") and b"//" not in p and b"\0" not in p:
            out.add(p)
    return sorted(out)


def gen_entry(rng, big):
    from dulwich.index import IndexEntry
    t = lambda: rng.choice([0, 1, 1700000000, (1700000000, 123456789), (2 ** 32 - 1, 999999999), 1700000000.25])
    wide = [2 ** 32, 2 ** 32 + 5, 2 ** 40, 2 ** 63] if big else []
    ext = rng.choice([0, 0, 0, 0x4000, 0x2000, 0x6000])
    flags = rng.choice([0, 0, 0, 0x8000])
    return IndexEntry(ctime=t(), mtime=t(), dev=rng.choice([0, 1, 2049, 2 ** 32 - 1] + wide), ino=rng.choice([0, 7, 2 ** 31, 2 ** 32 - 1] + wide),
                      mode=rng.choice([0o100644, 0o100755, 0o120000, 0o160000]), uid=rng.choice([0, 1000, 2 ** 32 - 1]), gid=rng.choice([0, 1000, 2 ** 32 - 1]),
                      size=rng.choice([0, 1, 4096, 2 ** 31, 2 ** 32 - 1] + wide), sha=rhex(rng), flags=flags | (0x4000 if ext else 0), extended_flags=ext)


def norm_time(t):
    if isinstance(t, int):
        return (t, 0)
    if isinstance(t, float):
        s, ns = divmod(t, 1.0)
        return (int(s), int(ns * 1000000000))
    return tuple(t)


def logical(e, name, stage):
    """Expected on-disk meaning of an IndexEntry (32-bit narrowing as git does)."""
    return {"name": name, "ctime": norm_time(e.ctime), "mtime": norm_time(e.mtime), "dev": e.dev & 0xFFFFFFFF, "ino": e.ino & 0xFFFFFFFF, "mode": e.mode,
            "uid": e.uid & 0xFFFFFFFF, "gid": e.gid & 0xFFFFFFFF, "size": e.size & 0xFFFFFFFF, "sha": e.sha.decode(), "stage": stage,
            "valid": bool(e.flags & 0x8000), "ext": e.extended_flags}


def features(exp, version, skip, exts):
    f = set()
    if any(len(e["name"]) >= 0xFFF for e in exp):
        f.add("name>=4095")
    if any(e["stage"] for e in exp):
        f.add("conflict")
    if any(e["ext"] for e in exp):
        f.add("extflags")
    if any(e["valid"] for e in exp):
        f.add("assume-valid")
    if version == 4:
        names = [e["name"] for e in exp]
        for a, b in zip(names, names[1:]):
            common = 0
            for x, y in zip(a, b):
                if x != y:
                    break
                common += 1
            if len(a) - common >= 128:
                f.add("v4-strip>=128")
    if skip:
        f.add("skiphash")
    if exts:
        f.add("ext:" + "+".join(sorted(s.decode("latin1") for s, _ in exts)))
    return f


def entries_of(idx):
    """Flatten a dulwich Index into logical entries."""
    from dulwich.index import ConflictedIndexEntry
    out = []
    for name in idx:
        v = idx[name]
        if isinstance(v, ConflictedIndexEntry):
            for st, e in ((1, v.ancestor), (2, v.this), (3, v.other)):
                if e is not None:
                    out.append(logical(e, name, st))
        else:
            out.append(logical(v, name, 0))
    return sorted(out, key=lambda e: (e["name"], e["stage"]))


def diff_entries(a, b):
    if len(a) != len(b):
        return "entry-count-differs"
    for x, y in zip(a, b):
        for k in x:
            if x[k] != y[k]:
                return "field-" + k
    return None


def parse_ls_debug(out):
    """git ls-files --stage --debug -z -> list of dict"""
    res = []
    toks = out.split(b"\0")
    for tok in toks:
        if not tok:
            continue
        # each record: "<mode> <sha> <stage>\t<path>" NUL then debug lines (newline separated) precede next record
        lines = tok.split(b"\n")
        # debug lines of the previous record come first
        for ln in lines[:-1]:
            ln = ln.strip()
            if not res:
                continue
            if ln.startswith(b"ctime:"):
                s, ns = ln.split()[1].split(b":")
                res[-1]["ctime"] = (int(s), int(ns))
            elif ln.startswith(b"mtime:"):
                s, ns = ln.split()[1].split(b":")
                res[-1]["mtime"] = (int(s), int(ns))
            elif ln.startswith(b"dev:"):
                p = ln.split()
                res[-1]["dev"], res[-1]["ino"] = int(p[1]), int(p[3])
            elif ln.startswith(b"uid:"):
                p = ln.split()
                res[-1]["uid"], res[-1]["gid"] = int(p[1]), int(p[3])
            elif ln.startswith(b"size:"):
                p = ln.split()
                res[-1]["size"] = int(p[1])
                fl = int(p[3], 16)
                res[-1]["valid"] = bool(fl & 0x8000)
                res[-1]["ext"] = (0x4000 if fl & 0x40000000 else 0) | (0x2000 if fl & 0x20000000 else 0)
        last = lines[-1]
        if b"\t" in last:
            meta, path = last.split(b"\t", 1)
            m = meta.split(b" ")
            res.append({"name": path, "mode": int(m[0], 8), "sha": m[1].decode(), "stage": int(m[2])})
    return res


def git_list(d, idxpath):
    r = core.git(["ls-files", "--stage", "-z"], cwd=d, env={"GIT_INDEX_FILE": idxpath}, check=False)
    if r.returncode != 0:
        return None, r.stderr.decode(errors="replace")[-300:]
    res = []
    for tok in r.stdout.split(b"\0"):
        if tok:
            meta, path = tok.split(b"\t", 1)
            m = meta.split(b" ")
            res.append({"name": path, "mode": int(m[0], 8), "sha": m[1].decode(), "stage": int(m[2])})
    if not any(b"\n" in e["name"] for e in res):
        # the --debug listing is line oriented: only usable when no path contains a newline
        r = core.git(["ls-files", "--stage", "--debug", "-z"], cwd=d, env={"GIT_INDEX_FILE": idxpath}, check=False)
        full = parse_ls_debug(r.stdout + b"\0")
        if [(e["name"], e["stage"]) for e in full] == [(e["name"], e["stage"]) for e in res]:
            res = full
    return res, None


def ensure_repo():
    if "scratch" not in _st:
        _st["scratch"] = core.Scratch("c11-")
        d = _st["scratch"].sub("repo")
        core.git(["init", "-q", d])
        _st["repo"] = d
    return _st["repo"]


# ------------------------------------------------------------------------------ cases
def run_rt(case):
    from dulwich.index import ConflictedIndexEntry, Index, IndexExtension
    rng = random.Random(case["seed"])
    d = ensure_repo()
    viol, stats, nt = [], {}, set()
    for _ in range(case["n"]):
        version = rng.choice([2, 3, 4, 4, None])
        skip = rng.random() < 0.15
        n = rng.choice([0, 1, 2, 5, 12])
        big = rng.random() < 0.3
        p = os.path.join(_st["scratch"].path, "idx-%d" % rng.randrange(10 ** 9))
        idx = Index(p, read=False, skip_hash=skip, version=version)
        paths = gen_paths(rng, n)
        for name in paths:
            if rng.random() < 0.12:
                stages = rng.sample([1, 2, 3], rng.randint(1, 3))
                c = ConflictedIndexEntry()
                for st in stages:
                    e = gen_entry(rng, big)
                    e.extended_flags, e.flags = 0, e.flags & ~0x4000
                    setattr(c, {1: "ancestor", 2: "this", 3: "other"}[st], e)
                idx[name] = c
            else:
                idx[name] = gen_entry(rng, big)
        exts = []
        if rng.random() < 0.25:
            exts = [(rng.choice([b"ZZZZ", b"QQRS", b"UNKN"]), bytes(rng.randrange(256) for _ in range(rng.randint(1, 30))))]
            idx._extensions = [IndexExtension.from_raw(s, dt) for s, dt in exts]
        exp = entries_of(idx)
        uses_ext = any(e["ext"] for e in exp)
        feats = features(exp, version, skip, exts)
        ftag = "+".join(sorted(feats)[:2]) or "plain"
        stats["indexes"] = stats.get("indexes", 0) + 1
        try:
            idx.write()
        except Exception as ex:
            viol.append({"sig": "C11/write-raises-%s/%s" % (type(ex).__name__, ftag), "feats": sorted(feats), "version": version})
            continue
        data = open(p, "rb").read()
        # (b) reference decode of dulwich's bytes
        try:
            ref = ref_decode_index(data, skip_hash_ok=skip)
            for pr in ref["problems"]:
                viol.append({"sig": "C11/bytes/%s/%s" % (pr.split(" for ")[0].split(" after ")[0].replace(" ", "-")[:50], ftag), "problem": pr, "version": version})
            dd = diff_entries(ref["entries"], exp)
            if dd and not ref["problems"]:
                viol.append({"sig": "C11/bytes/reference-decodes-different-entries/%s/%s" % (dd, ftag), "version": version})
            if uses_ext and ref["version"] < 3:
                viol.append({"sig": "C11/bytes/extended-flags-in-version-2"})
            if version in (2, 3, 4) and ref["version"] != version and not (uses_ext and version == 2):
                viol.append({"sig": "C11/bytes/version-written-%s-requested-%s" % (ref["version"], version)})
            if exts and ref["extensions"] != exts:
                viol.append({"sig": "C11/bytes/unknown-extension-not-written-verbatim"})
        except (IdxFormatError, ValueError, IndexError, struct.error) as ex:
            viol.append({"sig": "C11/bytes/reference-cannot-decode/%s" % ftag, "err": str(ex)[:100], "version": version})
        # (a) dulwich reads it back
        try:
            back = Index(p)
            dd = diff_entries(entries_of(back), exp)
            if dd:
                viol.append({"sig": "C11/roundtrip/%s/%s" % (dd, ftag), "version": version})
            if exts and [(e.signature, e.to_bytes()) for e in back._extensions] != exts:
                viol.append({"sig": "C11/roundtrip/unknown-extension-lost"})
        except Exception as ex:
            viol.append({"sig": "C11/roundtrip/read-raises-%s/%s" % (type(ex).__name__, ftag), "version": version, "msg": str(ex)[:100]})
        # (c) git reads it
        if rng.random() < case.get("git_p", 0.5):
            gl, err = git_list(d, p)
            stats["git_reads"] = stats.get("git_reads", 0) + 1
            if gl is None:
                viol.append({"sig": "C11/git/cannot-read-dulwich-index/%s" % ftag, "err": err, "version": version})
            else:
                gexp = [dict(e, sha=e["sha"]) for e in exp]
                dd = diff_entries(gl, [{k: e[k] for k in g} for g, e in zip(gl, gexp)] if len(gl) == len(gexp) else gexp)
                if dd:
                    viol.append({"sig": "C11/git/lists-different-entries/%s/%s" % (dd, ftag), "version": version})
        os.unlink(p)
        nt.add("rt:v%s:%s:%d" % (version, "+".join(sorted(feats)), len(exp)))
    return {"viol": dedupe(viol), "stats": stats, "nontrivial": sorted(nt), "evaluations": case["n"]}


def dedupe(viol):
    seen, out = set(), []
    for v in viol:
        if v["sig"] not in seen:
            seen.add(v["sig"])
            out.append(v)
    return out


def run_git(case):
    """(d) git writes, dulwich reads, dulwich rewrites, git reads again."""
    from dulwich.index import Index
    rng = random.Random(case["seed"])
    base = ensure_repo()
    d = _st["scratch"].sub("g%d" % rng.randrange(10 ** 9))
    viol, stats, nt = [], {}, set()
    try:
        core.git(["init", "-q", d])
        idxp = os.path.join(d, ".git", "index")
        version = rng.choice([2, 3, 4, 4])
        paths = gen_paths(rng, rng.choice([1, 3, 8, 20]))
        paths = [p for p in paths if len(p) < 3900 or rng.random() < 0.5]
        lines = []
        blob = core.git(["hash-object", "-w", "--stdin"], cwd=d, input=b"x").stdout.strip()
        conflict = False
        for p in paths:
            if rng.random() < 0.12:
                conflict = True
                for st in sorted(rng.sample([1, 2, 3], rng.randint(1, 3))):
                    lines.append(b"100644 %s %d\t%s\0" % (blob, st, p))
            else:
                lines.append(b"%s %s 0\t%s\0" % (rng.choice([b"100644", b"100755", b"120000", b"160000"]), blob, p))
        cfg = []
        feat = set()
        if rng.random() < 0.2:
            cfg.append("index.skipHash=true")
            feat.add("skiphash")
        r = core.git(["update-index", "-z", "--index-info"], cwd=d, input=b"".join(lines), extra_cfg=cfg + ["index.version=%d" % version], check=False)
        if r.returncode != 0:
            return {"viol": [], "stats": {"git_refused_input": 1}, "evaluations": 1}
        core.git(["update-index", "--index-version", str(version)], cwd=d, extra_cfg=cfg)
        plain = [p for p in paths if all(b"\t%s\0" % p in l and b" 0\t" in l for l in lines if b"\t%s\0" % p in l)]
        if plain and rng.random() < 0.4:
            sw = rng.sample(plain, min(len(plain), 2))
            core.git(["update-index", "--skip-worktree", "--"] + [os.fsdecode(p) for p in sw], cwd=d, extra_cfg=cfg, check=False)
            feat.add("skip-worktree")
        if plain and rng.random() < 0.3:
            av = rng.sample(plain, 1)
            core.git(["update-index", "--assume-unchanged", "--"] + [os.fsdecode(p) for p in av], cwd=d, extra_cfg=cfg, check=False)
            feat.add("assume-unchanged")
        if rng.random() < 0.2:
            with open(os.path.join(d, "ita.txt"), "w") as f:
                f.write("x")
            core.git(["add", "-N", "ita.txt"], cwd=d, extra_cfg=cfg, check=False)
            feat.add("intent-to-add")
        if rng.random() < 0.15 and not conflict:
            core.git(["update-index", "--split-index"], cwd=d, extra_cfg=cfg, check=False)
            feat.add("split-index")
        if rng.random() < 0.2:
            core.git(["update-index", "--untracked-cache"], cwd=d, extra_cfg=cfg, check=False)
            feat.add("untracked-cache")
        if conflict:
            feat.add("conflict")
        gl, err = git_list(d, idxp)
        if gl is None:
            return {"viol": [], "stats": {"git_cannot_list_own_index": 1}, "evaluations": 1}
        data = open(idxp, "rb").read()
        stats["git_written"] = 1
        ftag = "+".join(sorted(feat)) or "plain"
        names = [e["name"] for e in gl]
        for a, b in zip(names, names[1:]):
            common = 0
            for x, y in zip(a, b):
                if x != y:
                    break
                common += 1
            if version == 4 and len(a) - common >= 128:
                ftag += "+v4-strip>=128"
                break
        if any(len(nm) >= 0xFFF for nm in names):
            ftag += "+name>=4095"
        # validate the reference decoder on git's bytes (only without split index: shared entries live elsewhere)
        if "split-index" not in feat:
            try:
                ref = ref_decode_index(data, skip_hash_ok=True)
                dd = diff_entries(ref["entries"], [{k: g.get(k, r_[k]) for k in r_} for g, r_ in zip(gl, ref["entries"])] if len(gl) == len(ref["entries"]) else gl)
                if dd or ref["problems"]:
                    viol.append({"sig": "C11/REFERENCE-DECODER-DISAGREES-WITH-GIT/%s" % (dd or ref["problems"][0][:40]), "version": version, "feat": ftag})
            except Exception as ex:
                viol.append({"sig": "C11/REFERENCE-DECODER-FAILS-ON-GIT-INDEX/%s" % type(ex).__name__, "version": version, "feat": ftag, "err": str(ex)[:100]})
        try:
            idx = Index(idxp)
            got = entries_of(idx)
            if "split-index" in feat:
                stats["split_index_read_without_error"] = 1
            dd = diff_entries([{k: e[k] for k in g} for g, e in zip(gl, got)] if len(gl) == len(got) else got, gl)
            if dd and "split-index" not in feat:
                viol.append({"sig": "C11/git2d/dulwich-reads-different-entries/%s/%s" % (dd, ftag), "version": version})
            elif dd:
                viol.append({"sig": "C11/git2d/split-index-read-as-different-entries", "version": version})
            else:
                # dulwich rewrites, git reads again
                idx.write()
                gl2, err2 = git_list(d, idxp)
                stats["rewrites"] = 1
                if gl2 is None:
                    viol.append({"sig": "C11/git2d/git-cannot-read-dulwich-rewrite/%s" % ftag, "err": err2, "version": version})
                elif gl2 != gl:
                    dd2 = diff_entries(gl2, gl)
                    viol.append({"sig": "C11/git2d/rewrite-changes-what-git-lists/%s/%s" % (dd2, ftag), "version": version})
                st = core.git(["status", "--porcelain"], cwd=d, check=False)
                if st.returncode != 0:
                    viol.append({"sig": "C11/git2d/git-status-dies-on-dulwich-rewrite/%s" % ftag, "err": st.stderr.decode(errors="replace")[-200:]})
                # conflict edits that re-use the entry objects read from disk in other slots: resolve with one side, swap the sides
                from dulwich.index import ConflictedIndexEntry
                if gl2 == gl and conflict and not viol:
                    idx2 = Index(idxp)
                    cpaths = [p_ for p_ in idx2 if isinstance(idx2[p_], ConflictedIndexEntry)]
                    expected = [(e["name"], e["stage"], e["mode"], e["sha"]) for e in gl]
                    done_edits = []
                    for p_ in cpaths:
                        c = idx2[p_]
                        sides = {1: c.ancestor, 2: c.this, 3: c.other}
                        have = [k for k, v in sides.items() if v is not None]
                        op = rng.choice(["resolve", "resolve", "swap", "keep"])
                        if op == "resolve":
                            k = rng.choice(have)
                            idx2[p_] = sides[k]
                            keep = [t for t in expected if t[0] == p_ and t[1] == k][0]
                            expected = [t for t in expected if t[0] != p_] + [(p_, 0, keep[2], keep[3])]
                            done_edits.append("resolve-with-stage-%d" % k)
                        elif op == "swap" and c.this is not None and c.other is not None:
                            idx2[p_] = ConflictedIndexEntry(ancestor=c.ancestor, this=c.other, other=c.this)
                            t2 = [t for t in expected if t[0] == p_ and t[1] == 2][0]
                            t3 = [t for t in expected if t[0] == p_ and t[1] == 3][0]
                            expected = [t for t in expected if not (t[0] == p_ and t[1] in (2, 3))] + [(p_, 2, t3[2], t3[3]), (p_, 3, t2[2], t2[3])]
                            done_edits.append("swap-sides")
                    if done_edits:
                        idx2.write()
                        gl3, err3 = git_list(d, idxp)
                        stats["conflict_edits"] = len(done_edits)
                        got3 = sorted((e["name"], e["stage"], e["mode"], e["sha"]) for e in (gl3 or []))
                        if gl3 is None:
                            viol.append({"sig": "C11/git2d/git-cannot-read-index-after-conflict-edit/%s" % "+".join(sorted(set(done_edits))), "err": err3})
                        elif got3 != sorted(expected):
                            bad = sorted(set(got3) ^ set(expected))
                            viol.append({"sig": "C11/git2d/conflict-edit-written-with-wrong-stages/%s" % "+".join(sorted(set(done_edits))),
                                         "differs": [(core.short(t[0], 30), t[1]) for t in bad[:6]], "version": version})
                        else:
                            # and dulwich reads its own result the same way
                            back = entries_of(Index(idxp))
                            if sorted((e["name"], e["stage"], e["mode"], e["sha"]) for e in back) != sorted(expected):
                                viol.append({"sig": "C11/git2d/conflict-edit-read-back-differently/%s" % "+".join(sorted(set(done_edits))), "version": version})
        except Exception as ex:
            viol.append({"sig": "C11/git2d/read-raises-%s/%s" % (type(ex).__name__, "split-index" if "split-index" in feat else ftag),
                         "version": version, "msg": str(ex)[:120]})
        nt.add("g2d:v%d:%s:%d" % (version, ftag, len(gl)))
    finally:
        shutil.rmtree(d, ignore_errors=True)
    return {"viol": dedupe(viol), "stats": stats, "nontrivial": sorted(nt), "evaluations": 1}


def run_corrupt(case):
    """(e) damage is detected: every single-byte change and every truncation of a small index raises on read."""
    from dulwich.index import Index
    rng = random.Random(case["seed"])
    ensure_repo()
    viol, stats = [], {}
    p = os.path.join(_st["scratch"].path, "cidx-%d" % rng.randrange(10 ** 9))
    idx = Index(p, read=False, version=case["version"])
    for name in [b"a", b"dir/b", b"dir/c.txt"]:
        e = gen_entry(rng, False)
        if case["version"] == 2:
            e.extended_flags, e.flags = 0, e.flags & ~0x4000
        idx[name] = e
    idx.write()
    good = open(p, "rb").read()
    base = entries_of(Index(p))
    n = 0
    # the reader: the default handle, or the handle a repository with index.skipHash / feature.manyFiles opens (skip_hash is a write-side
    # option: a file that carries a real trailer must still be verified against it)
    rkw = {"skip_hash": True} if case.get("reader") == "skip_hash" else {}
    rtag = "/reader-opened-with-skip_hash" if rkw else ""
    for pos in range(len(good)):
        for pat in (0x01, 0x80):
            bad = bytearray(good)
            bad[pos] ^= pat
            with open(p, "wb") as f:
                f.write(bad)
            n += 1
            try:
                got = entries_of(Index(p, **rkw))
                viol.append({"sig": "C11/corrupt/byte-flip-not-detected/%s%s" % ("trailer" if pos >= len(good) - 20 else "header" if pos < 12 else "body", rtag),
                             "pos": pos, "len": len(good), "version": case["version"], "same_entries": got == base})
            except Exception:
                pass
    for cut in range(len(good)):
        with open(p, "wb") as f:
            f.write(good[:cut])
        n += 1
        try:
            got = Index(p, **rkw)
            if cut == 0:
                continue  # an empty file is an empty index by design? counted separately
            viol.append({"sig": "C11/corrupt/truncation-not-detected/%s%s" % ("inside-trailer" if cut > len(good) - 20 else "before-trailer", rtag),
                         "cut": cut, "len": len(good), "version": case["version"]})
        except Exception:
            pass
    os.unlink(p)
    stats["corruptions"] = n
    return {"viol": dedupe(viol), "stats": stats, "nontrivial": ["corrupt:v%d" % case["version"], "corrupt:%s" % case["seed"], "corrupt-reader:%s" % (case.get("reader") or "default")], "evaluations": n}


def worker_exit():
    if "scratch" in _st:
        _st["scratch"].cleanup()


def run_case(case):
    return {"rt": run_rt, "git": run_git, "corrupt": run_corrupt}[case["kind"]](case)


def main(ctx):
    cases = []
    for i in range(ctx.budget(500, 5000)):
        cases.append({"kind": "rt", "seed": "%d/r/%d" % (ctx.seed, i), "n": 12})
    for i in range(ctx.budget(1200, 12000)):
        cases.append({"kind": "git", "seed": "%d/g/%d" % (ctx.seed, i)})
    for v in (2, 3, 4):
        for k in range(ctx.budget(1, 4)):
            cases.append({"kind": "corrupt", "seed": "%d/c/%d/%d" % (ctx.seed, v, k), "version": v})
            cases.append({"kind": "corrupt", "seed": "%d/cs/%d/%d" % (ctx.seed, v, k), "version": v, "reader": "skip_hash"})
    ctx.rule = ("entry sets of 0..12 entries: arbitrary-byte paths, shared prefixes crossing v4 strip lengths 127/128 and 16383/16384, names of "
                "0xFFE..0x2001 bytes, conflict stages with missing members, stat values to 2^63, float and (sec,nsec) times, assume-valid / "
                "skip-worktree / intent-to-add bits, versions 2/3/4/default x skipHash x unknown extensions; git-written indexes via "
                "update-index (--index-info, --index-version, --skip-worktree, --assume-unchanged, --split-index, --untracked-cache), add -N, "
                "index.skipHash; all single-byte flips (2 patterns) and truncations of small v2/v3/v4 indexes. non-trivial = distinct "
                "(version, feature set, size).")
    ctx.assumptions = ["reference decoder written from gitformat-index and validated against git-written indexes in the same run",
                       "stat fields compared modulo git's own 32-bit truncation", "git 2.39.5"]

    def on_result(case, out):
        if out["status"] != "ok":
            if out["status"] == "timeout":
                ctx.inconc("timeout " + case["kind"])
            else:
                ctx.violation("C11/%s/harness-%s/%s" % (case["kind"], out["status"], out.get("exc")), case, out)
            return
        res = out["result"]
        ctx.merge(res)
        for v in res.get("viol", []):
            ctx.violation(v["sig"], case, v)
        ctx.sample(case, case["kind"])

    pool.pmap("vt.checks.c11", cases, timeout=900, on_result=on_result)
    for k in ("indexes", "git_reads", "git_written", "rewrites", "corruptions"):
        if not ctx.stats[k]:
            return "monitor never reached: " + k
    return None
