"""C02 — pack and pack-index round trip, internal consistency, interoperability with C git.

Monitors / oracles:
  R1 the real Pack/PackData/PackInflater read back what the real writers wrote (random access in
     random order under a tiny delta-base cache, iteration, check())
  R2 independent reader vt.ref.packfmt walks the raw bytes: entry headers, zlib streams (exact
     consumption), OFS/REF delta resolution, trailer; idx v1/v2/v3: fan-out, sorted names, offsets =
     entry starts, CRC32 of raw entry bytes, pack checksum, idx trailer, 64-bit offset table
  R3 C git: index-pack --strict on dulwich's pack (v2 idx must be byte-identical), verify-pack -v,
     show-index; reverse: git pack-objects (depth to 50, window, delta-base-offset on/off, thin,
     index version 1/2) read by Pack, PackInflater, add_thin_pack
"""
import hashlib
import io
import os
import random
import shutil
import subprocess
import zlib

from vt import core, pool
from vt.ref import packfmt

LEVEL = "exploration"
_st = {}


def gen_objects(rng, O, n, family=True, big_ok=True):
    """Object set with size boundaries, duplicates and similar-blob families (delta-of-delta)."""
    objs = []
    sizes = [0, 1, 15, 16, 17, 2047, 2048, 2049, 65535, 65536, 65537, 262143, 262144, 262145]
    # the diff-based delta encoders are quadratic on dissimilar inputs (a 134 KB blob against 2 KB of random bytes takes over a
    # minute in the debug build of the Rust encoder): under deltification either everything is small, or (only_family) every object
    # is a near copy of one large text
    only_family = (not big_ok) and rng.random() < 0.25
    base = b"".join(b"line %d of the base text with some padding\n" % i for i in range(rng.choice([30, 400, 3000]) if (big_ok or only_family) else 30))
    for i in range(n):
        r = rng.random()
        if only_family:
            r = 0.5
        if r < 0.25:
            # dissimilar blobs >= 64 KiB make the diff-based delta encoders quadratic (minutes in the debug build):
            # with deltification on, large objects only come from the similar-blob family below
            s = rng.choice(sizes[:11] if big_ok else sizes[:6]) if n > 8 else rng.choice(sizes[:8] if big_ok else sizes[:6])
            data = bytes((rng.randrange(256) if s < 3000 else (i * 7 + j) & 0xFF) for j in range(min(s, 3000))) * (s // 3000 + 1)
            data = data[:s]
            objs.append(O.Blob.from_string(data))
        elif r < 0.65 and family:
            t = bytearray(base)
            for _ in range(rng.randint(1, 4)):
                k = rng.randrange(len(t))
                t[k:k + rng.randint(0, 30)] = b"edit %d " % rng.randrange(1000)
            objs.append(O.Blob.from_string(bytes(t)))
        elif r < 0.75:
            tr = O.Tree()
            bl = [o for o in objs if o.type_name == b"blob"]
            for j in range(rng.randint(0, 6) if bl else 0):
                tr.add(b"f%d" % j, 0o100644, rng.choice(bl).id)
            objs.append(tr)
        elif r < 0.9:
            c = O.Commit()
            et = O.Tree()
            if not any(o.id == et.id for o in objs):
                objs.append(et)
            c.tree = et.id
            c.parents = [o.id for o in objs if o.type_name == b"commit"][-1:]
            c.author = c.committer = b"A <a@b>"
            c.author_time = c.commit_time = 1700000000 + i
            c.author_timezone = c.commit_timezone = 0
            c.message = b"commit %d\n" % rng.randrange(10 ** 6)
            objs.append(c)
        else:
            t = O.Tag()
            eb = O.Blob.from_string(b"tagged\n")
            if not any(o.id == eb.id for o in objs):
                objs.append(eb)
            t.object = (O.Blob, eb.id)
            t.name = b"t%d" % i
            t.tagger = b"T <t@t>"
            t.tag_time, t.tag_timezone = 1700000000, 0
            t.message = b"tag %d\n" % rng.randrange(10 ** 6)
            objs.append(t)
    if objs and rng.random() < 0.3:
        objs.append(O.Blob.from_string(objs[0].as_raw_string()) if objs[0].type_name == b"blob" else objs[0])  # duplicated content
    return objs


def source_map(objs):
    return {o.id: (o.type_name, o.as_raw_string()) for o in objs}


def check_idx(idx_bytes, pi, ids_by_ofs, version, hash_len, viol, tag, pack_trailer):
    try:
        ii = packfmt.parse_idx(idx_bytes, hash_len)
    except Exception as e:
        viol.append({"sig": "C02/%s/idx-unparsable-%s" % (tag, type(e).__name__), "err": str(e)[:100]})
        return None
    for pr in ii.problems:
        viol.append({"sig": "C02/%s/idx-%s" % (tag, pr.split("[")[0].split(" but ")[0].replace(" ", "-")[:40]), "problem": pr})
    if version and ii.version != version:
        viol.append({"sig": "C02/%s/idx-version-%s-requested-%s" % (tag, ii.version, version)})
    starts = {e.offset: e for e in pi.entries}
    want = {ids_by_ofs[o]: o for o in ids_by_ofs}
    got = dict(zip(ii.names, ii.offsets))
    if set(got) != set(want):
        viol.append({"sig": "C02/%s/idx-names-differ-from-pack-contents" % tag, "missing": len(set(want) - set(got)), "extra": len(set(got) - set(want))})
    else:
        for nm, ofs in got.items():
            if ofs not in starts:
                viol.append({"sig": "C02/%s/idx-offset-not-an-entry-start" % tag})
                break
            # duplicates: any entry start holding that id is fine
            if ids_by_ofs.get(ofs) != nm:
                viol.append({"sig": "C02/%s/idx-offset-points-to-other-object" % tag})
                break
        if ii.crcs is not None:
            for nm, crc in zip(ii.names, ii.crcs):
                if starts[got[nm]].crc32 != crc:
                    viol.append({"sig": "C02/%s/idx-crc32-differs-from-raw-entry-bytes" % tag})
                    break
    if ii.pack_checksum != pack_trailer:
        viol.append({"sig": "C02/%s/idx-pack-checksum-differs-from-pack-trailer" % tag})
    return ii


def verify_pack_bytes(pack_bytes, idx_bytes, src, version, hash_len, viol, tag, external=None):
    """R2. returns (PackInfo, ids_by_ofs) or None"""
    try:
        pi = packfmt.parse_pack(pack_bytes, hash_len)
    except Exception as e:
        viol.append({"sig": "C02/%s/pack-unparsable-by-reference-%s" % (tag, type(e).__name__), "err": str(e)[:120]})
        return None
    if pi.trailer != pi.computed_trailer:
        viol.append({"sig": "C02/%s/pack-trailer-checksum-wrong" % tag})
    try:
        objs, ids = packfmt.resolve(pi, external)
    except Exception as e:
        viol.append({"sig": "C02/%s/pack-deltas-unresolvable-%s" % (tag, type(e).__name__), "err": str(e)[:120]})
        return None
    got = {k.hex().encode(): v for k, v in objs.items()}
    if got != src:
        miss = set(src) - set(got)
        extra = set(got) - set(src)
        viol.append({"sig": "C02/%s/pack-contents-differ-from-source/%s" % (tag, "missing" if miss else "extra" if extra else "bytes"),
                     "missing": len(miss), "extra": len(extra)})
    if pi.count != len(pi.entries):
        viol.append({"sig": "C02/%s/header-count-differs" % tag})
    if idx_bytes is not None:
        check_idx(idx_bytes, pi, ids, version, hash_len, viol, tag, pi.trailer)
    return pi, ids


def read_back_dulwich(basename, fmt, src, rng, viol, tag, stats):
    """R1"""
    from dulwich.pack import Pack, PackData, PackInflater
    try:
        p = Pack(basename, object_format=fmt, delta_base_cache_limit=rng.choice([None, 1, 200]))
    except TypeError:
        p = Pack(basename, object_format=fmt)
    try:
        ids = list(src)
        rng.shuffle(ids)
        for i in ids + ids[:3]:
            stats["lookups"] = stats.get("lookups", 0) + 1
            o = p[i]
            if (o.type_name, o.as_raw_string()) != src[i]:
                viol.append({"sig": "C02/%s/random-access-returns-other-object" % tag})
                break
            t, raw = p.get_raw(i)
            if b"".join(raw) if not isinstance(raw, bytes) else raw != src[i][1]:
                viol.append({"sig": "C02/%s/get_raw-differs" % tag})
                break
            if i not in p:
                viol.append({"sig": "C02/%s/contains-false-for-present-object" % tag})
        it = {o.id: (o.type_name, o.as_raw_string()) for o in p.iterobjects()}
        if it != src:
            viol.append({"sig": "C02/%s/iteration-differs-from-source" % tag, "n_src": len(src), "n_it": len(it)})
        ents = list(p.index.iterentries())
        if sorted(e[0] for e in ents) != sorted(bytes.fromhex(i.decode()) for i in src):
            viol.append({"sig": "C02/%s/iterentries-names-differ" % tag})
        if len(p) != len(src):
            viol.append({"sig": "C02/%s/len-differs" % tag})
        p.check()
        inf = {o.id: (o.type_name, o.as_raw_string()) for o in PackInflater.for_pack_data(p.data, resolve_ext_ref=None)}
        if inf != src:
            viol.append({"sig": "C02/%s/PackInflater-differs-from-source" % tag})
    except Exception as e:
        import traceback
        viol.append({"sig": "C02/%s/dulwich-read-raises-%s" % (tag, type(e).__name__), "msg": str(e)[:150], "tb": traceback.format_exc()[-600:]})
    finally:
        p.close()


def git_verify(basename, src, idx_version, viol, tag, stats, sha256=False):
    """R3 on a dulwich-written pack."""
    d = os.path.dirname(basename)
    g = os.path.join(d, "gitcopy")
    os.makedirs(g, exist_ok=True)
    shutil.copy(basename + ".pack", os.path.join(g, "x.pack"))
    stats["git_index_pack"] = stats.get("git_index_pack", 0) + 1
    repo = _st["sha256repo"] if sha256 else _st["repo"]
    r = core.git(["index-pack", "--strict", "-o", os.path.join(g, "x.idx"), os.path.join(g, "x.pack")], cwd=repo, check=False)
    if r.returncode != 0:
        viol.append({"sig": "C02/%s/git-index-pack-rejects-dulwich-pack" % tag, "err": r.stderr.decode(errors="replace")[-200:]})
        return
    if idx_version == 2 and os.path.exists(basename + ".idx"):
        if open(os.path.join(g, "x.idx"), "rb").read() != open(basename + ".idx", "rb").read():
            viol.append({"sig": "C02/%s/v2-idx-not-byte-identical-to-git-index-pack" % tag})
    # git verifies dulwich's own idx
    if os.path.exists(basename + ".idx") and idx_version in (1, 2):
        shutil.copy(basename + ".idx", os.path.join(g, "y.idx"))
        shutil.copy(basename + ".pack", os.path.join(g, "y.pack"))
        r = core.git(["verify-pack", "-v", os.path.join(g, "y.idx")], cwd=repo, check=False)
        stats["git_verify_pack"] = stats.get("git_verify_pack", 0) + 1
        if r.returncode != 0:
            viol.append({"sig": "C02/%s/git-verify-pack-rejects-dulwich-idx-v%s" % (tag, idx_version), "err": r.stderr.decode(errors="replace")[-200:]})
        else:
            listed = {}
            for line in r.stdout.splitlines():
                p = line.split()
                if len(p) >= 3 and len(p[0]) in (40, 64) and p[1] in (b"blob", b"tree", b"commit", b"tag"):
                    listed[p[0]] = p[1]  # the size column is the delta size for deltified entries: only id and type are compared
            exp = {k: v[0] for k, v in src.items()}
            if listed != exp:
                viol.append({"sig": "C02/%s/git-verify-pack-lists-different-objects" % tag})
    shutil.rmtree(g, ignore_errors=True)


def ensure():
    if "scratch" not in _st:
        _st["scratch"] = core.Scratch("c02-")
        d = _st["scratch"].sub("repo")
        core.git(["init", "-q", "--bare", d])
        _st["repo"] = d
        d2 = _st["scratch"].sub("repo256")
        core.git(["init", "-q", "--bare", "--object-format=sha256", d2])
        _st["sha256repo"] = d2


def run_write(case):
    import dulwich.objects as O
    from dulwich.object_format import SHA1, SHA256
    from dulwich.pack import (pack_objects_to_data, write_pack, write_pack_data, write_pack_index, write_pack_objects)
    ensure()
    rng = random.Random(case["seed"])
    viol, stats, nt = [], {}, set()
    for _ in range(case["n"]):
        deltify = rng.choice([None, False, True, True])
        objs = gen_objects(rng, O, rng.choice([0, 1, 2, 5, 12, 30]), big_ok=(deltify is False))
        objs = list({o.id: o for o in objs}.values())  # object *sets*: one entry per id (same content from two instances = one object)
        rng.shuffle(objs)
        src = source_map(objs)
        d = _st["scratch"].sub("w%d" % rng.randrange(10 ** 9))
        base = os.path.join(d, "pack-test")
        how = rng.choice(["write_pack", "data+index", "data+index", "write_pack_objects"])
        window = rng.choice([None, 0, 1, 10])
        level = rng.choice([-1, 0, 1, 6, 9])
        ofs = rng.random() < 0.6
        idxv = rng.choice([1, 2, 2, 3, None])
        fmt = SHA1
        tag = "%s/deltify=%s" % (how, bool(deltify))
        stats["packs_written"] = stats.get("packs_written", 0) + 1
        try:
            if how == "write_pack":
                write_pack(base, objs, fmt, deltify=deltify, delta_window_size=window, compression_level=level)
                idxv_eff = 2
            else:
                with open(base + ".pack", "wb") as f:
                    if how == "write_pack_objects":
                        entries, csum = write_pack_objects(f.write, objs, fmt, deltify=deltify, delta_window_size=window, compression_level=level)
                    else:
                        cnt, recs = pack_objects_to_data(objs, deltify=deltify, delta_window_size=window, ofs_delta=ofs)
                        entries, csum = write_pack_data(f.write, recs, fmt, num_records=cnt, compression_level=level)
                        tag += "/ofs=%s" % ofs
                ents = sorted([(k, v[0], v[1]) for k, v in entries.items()])
                with open(base + ".idx", "wb") as f:
                    write_pack_index(f, ents, csum, version=idxv)
                idxv_eff = idxv
                tag += "/idx-v%s" % idxv
        except Exception as e:
            viol.append({"sig": "C02/%s/write-raises-%s" % (tag, type(e).__name__), "msg": str(e)[:150], "n": len(objs)})
            shutil.rmtree(d, ignore_errors=True)
            continue
        pk = open(base + ".pack", "rb").read()
        ix = open(base + ".idx", "rb").read()
        verify_pack_bytes(pk, ix, src, idxv_eff, 20, viol, tag)
        read_back_dulwich(base, fmt, src, rng, viol, tag, stats)
        if rng.random() < case.get("git_p", 0.4):
            git_verify(base, src, idxv_eff if idxv_eff else 2, viol, tag, stats)
        shutil.rmtree(d, ignore_errors=True)
        kinds = "".join(sorted(set(o.type_name[:2].decode() for o in objs)))
        big = any(len(o.as_raw_string()) >= 65536 for o in objs)
        nt.add("w:%s:%s:lvl%s:win%s:n%d:%s:%s" % (how, deltify, level, window, min(len(objs), 31), kinds, big))
    return {"viol": dedupe(viol), "stats": stats, "nontrivial": sorted(nt), "evaluations": case["n"]}


def dedupe(viol):
    seen, out = set(), []
    for v in viol:
        if v["sig"] not in seen:
            seen.add(v["sig"])
            out.append(v)
    return out


def run_sha256(case):
    """SHA-256: through the path dulwich supports for sha256 repositories (object store of a sha256 repository builds the
    pack and indexes it from the pack data); R2 with 32-byte names/trailers and git in a sha256 repository."""
    import dulwich.objects as O
    from dulwich.repo import Repo
    ensure()
    rng = random.Random(case["seed"])
    viol, stats = [], {}
    d = _st["scratch"].sub("s%d" % rng.randrange(10 ** 9))
    try:
        try:
            r = Repo.init_bare(d, object_format="sha256")
        except Exception as e:
            return {"viol": [], "stats": {"sha256_refused_configuration:" + type(e).__name__: 1}, "evaluations": 1, "nontrivial": ["sha256-refused"]}
        # blobs only: trees/commits/tags would have to carry 64-hex ids of other objects
        objs = [o for o in gen_objects(rng, O, rng.choice([3, 10, 25]), big_ok=True) if o.type_name == b"blob"] or [O.Blob.from_string(b"x")]
        objs = list({o.id: o for o in objs}.values())
        src = {}
        for o in objs:
            raw = o.as_raw_string()
            src[hashlib.sha256(o.type_name + b" %d\0" % len(raw) + raw).hexdigest().encode()] = (o.type_name, raw)
        try:
            r.object_store.add_objects([(o, None) for o in objs])
        except Exception as e:
            return {"viol": [{"sig": "C02/sha256/add_objects-raises-%s" % type(e).__name__, "msg": str(e)[:150]}], "stats": {}, "evaluations": 1}
        pd = os.path.join(d, "objects", "pack")
        packs = [f[:-5] for f in os.listdir(pd) if f.endswith(".pack")]
        stats["sha256_packs"] = len(packs)
        got = set(r.object_store)
        if got != set(src):
            viol.append({"sig": "C02/sha256/store-lists-different-ids"})
        for i in rng.sample(sorted(src), min(5, len(src))):
            o = r.object_store[i]
            if (o.type_name, o.as_raw_string()) != src[i]:
                viol.append({"sig": "C02/sha256/lookup-returns-other-object"})
        r.close()
        for b_ in packs:
            base = os.path.join(pd, b_)
            # source subset contained in this pack is unknown: check structural consistency + union below
            pk = open(base + ".pack", "rb").read()
            ix = open(base + ".idx", "rb").read()
            verify_pack_bytes(pk, ix, src if len(packs) == 1 else None, None, 32, viol, "sha256") if len(packs) == 1 else None
        # the same pack bytes streamed (as a fetch delivers them) into a second, empty sha256 store: the reader side names every
        # object itself from the stream, writes its own index, and must list and return exactly the same objects
        if len(packs) == 1:
            d2 = d + ".streamed"
            try:
                r2 = Repo.init_bare(d2, mkdir=True, object_format="sha256")
                try:
                    if rng.random() < 0.5:
                        pkts = Packets(pk, rng.choice([19, 21, 24, 33, 57, 100, 120]))
                        r2.object_store.add_thin_pack(pkts.read_all, pkts.read_some)
                    else:
                        r2.object_store.add_thin_pack(io.BytesIO(pk).read, None)
                    stats["sha256_streamed_ingests"] = 1
                    got2 = set(r2.object_store)
                    if got2 != set(src):
                        viol.append({"sig": "C02/sha256/streamed-ingest/store-lists-different-ids", "extra": len(got2 - set(src)), "missing": len(set(src) - got2)})
                    else:
                        for i in rng.sample(sorted(src), min(5, len(src))):
                            o = r2.object_store[i]
                            if (o.type_name, o.as_raw_string()) != src[i]:
                                viol.append({"sig": "C02/sha256/streamed-ingest/lookup-returns-other-object"})
                finally:
                    r2.close()
                fs2 = core.git(["fsck", "--full", "--strict"], cwd=d2, check=False)
                if fs2.returncode not in (0,) and b"missing" not in fs2.stderr + fs2.stdout:
                    viol.append({"sig": "C02/sha256/streamed-ingest/git-fsck-rejects", "err": (fs2.stderr + fs2.stdout).decode(errors="replace")[-300:]})
            except Exception as e:
                viol.append({"sig": "C02/sha256/streamed-ingest/raises-%s" % type(e).__name__, "msg": str(e)[:150]})
            finally:
                shutil.rmtree(d2, ignore_errors=True)
        fs = core.git(["fsck", "--full", "--strict"], cwd=d, check=False)
        stats["git_index_pack"] = stats.get("git_index_pack", 0) + 1
        if fs.returncode not in (0,) and b"missing" not in fs.stderr + fs.stdout:
            viol.append({"sig": "C02/sha256/git-fsck-rejects-dulwich-sha256-pack", "err": (fs.stderr + fs.stdout).decode(errors="replace")[-300:]})
        gl = core.git(["cat-file", "--batch-all-objects", "--batch-check"], cwd=d, check=False)
        glist = {l.split()[0]: (l.split()[1], int(l.split()[2])) for l in gl.stdout.splitlines()}
        if glist != {k: (v[0], len(v[1])) for k, v in src.items()}:
            viol.append({"sig": "C02/sha256/git-lists-different-objects"})
    finally:
        shutil.rmtree(d, ignore_errors=True)
    return {"viol": dedupe(viol), "stats": stats, "evaluations": 1, "nontrivial": ["sha256:%d" % len(objs)]}


def run_bigofs(case):
    """64-bit offset table: synthetic entries with offsets >= 2^31 through write_pack_index_v2/v3 and back."""
    from dulwich.object_format import SHA1
    from dulwich.pack import load_pack_index_file, write_pack_index_v1, write_pack_index_v2, write_pack_index_v3
    ensure()
    rng = random.Random(case["seed"])
    viol, stats = [], {}
    n = rng.randint(1, 40)
    names = sorted(set(bytes(rng.randrange(256) for _ in range(20)) for _ in range(n)))
    offs = [rng.choice([12, 2 ** 31 - 1, 2 ** 31, 2 ** 31 + 1, 2 ** 32 - 1, 2 ** 32, 2 ** 32 + 7, 2 ** 40, 2 ** 62, rng.randrange(12, 2 ** 31)]) for _ in names]
    ents = [(nm, o, rng.getrandbits(32)) for nm, o in zip(names, offs)]
    csum = bytes(20)
    for v, fn in ((2, write_pack_index_v2), (3, write_pack_index_v3)):
        f = io.BytesIO()
        try:
            fn(f, ents, csum)
        except Exception as e:
            viol.append({"sig": "C02/bigofs/v%d-write-raises-%s" % (v, type(e).__name__), "msg": str(e)[:100]})
            continue
        data = f.getvalue()
        stats["bigofs_indexes"] = stats.get("bigofs_indexes", 0) + 1
        try:
            ii = packfmt.parse_idx(data, 20)
            for pr in ii.problems:
                viol.append({"sig": "C02/bigofs/v%d-idx-%s" % (v, pr.replace(" ", "-")[:40])})
            if list(zip(ii.names, ii.offsets, ii.crcs)) != ents:
                viol.append({"sig": "C02/bigofs/v%d-reference-decodes-different-entries" % v})
            want_large = sum(1 for o in offs if o >= 2 ** 31)
            if ii.nlarge != want_large:
                viol.append({"sig": "C02/bigofs/v%d-large-offset-table-size-%d-expected-%d" % (v, ii.nlarge, want_large)})
        except Exception as e:
            viol.append({"sig": "C02/bigofs/v%d-reference-cannot-parse-%s" % (v, type(e).__name__)})
        try:
            p = os.path.join(_st["scratch"].path, "big-%d.idx" % rng.randrange(10 ** 9))
            with open(p, "wb") as fh:
                fh.write(data)
            with open(p, "rb") as fh:
                idx = load_pack_index_file(p, fh, SHA1)
                got = [(e[0], e[1], e[2]) for e in idx.iterentries()]
                if got != ents:
                    viol.append({"sig": "C02/bigofs/v%d-dulwich-reads-different-entries" % v})
                for nm, o, c in rng.sample(ents, min(5, len(ents))):
                    if idx.object_offset(nm.hex().encode()) != o:
                        viol.append({"sig": "C02/bigofs/v%d-object_offset-wrong" % v})
            if v == 2:
                r = subprocess.run(["git", "show-index"], input=data, stdout=subprocess.PIPE, stderr=subprocess.PIPE, env=core.git_env(), timeout=60)
                stats["git_show_index"] = stats.get("git_show_index", 0) + 1
                gl = [(bytes.fromhex(l.split()[1].decode()), int(l.split()[0])) for l in r.stdout.splitlines()]
                if r.returncode != 0 or gl != [(e[0], e[1]) for e in ents]:
                    viol.append({"sig": "C02/bigofs/git-show-index-differs", "err": r.stderr.decode(errors="replace")[-100:]})
            os.unlink(p)
        except Exception as e:
            viol.append({"sig": "C02/bigofs/v%d-dulwich-read-raises-%s" % (v, type(e).__name__), "msg": str(e)[:100]})
    return {"viol": dedupe(viol), "stats": stats, "evaluations": 1, "nontrivial": ["big:%d:%d" % (n, sum(1 for o in offs if o >= 2 ** 31))]}


class Packets:
    """a transport that delivers the stream in fixed-size packets: read_some never crosses a packet boundary, read_all blocks across them"""

    def __init__(self, data, size):
        self.data, self.size, self.pos = data, size, 0

    def read_some(self, n):
        left_in_packet = self.size - (self.pos % self.size)
        k = max(1, min(n, left_in_packet))
        out = self.data[self.pos:self.pos + k]
        self.pos += len(out)
        return out

    def read_all(self, n):
        out = bytearray()
        while len(out) < n:
            b = self.read_some(n - len(out))
            if not b:
                break
            out += b
        return bytes(out)


def stream_in_packets(pk, n_expected, rng, viol, tag, stats):
    """a valid pack must be readable from the wire however the transport slices it (REF_DELTA base names and the trailer may straddle
    the reader's look-ahead buffer)."""
    import hashlib
    from dulwich.pack import PackStreamReader
    for size in sorted(set(rng.sample(range(1, 131), 10) + [19, 20, 21, 24, 40, 64])):
        pkts = Packets(pk, size)
        try:
            rd = PackStreamReader(hashlib.sha1, pkts.read_all, pkts.read_some)
            n = sum(1 for _ in rd.read_objects(compute_crc32=True))
            stats["packetised_stream_reads"] = stats.get("packetised_stream_reads", 0) + 1
            if n != n_expected:
                viol.append({"sig": "C02/%s/stream-in-packets-yields-%s-objects" % (tag, "fewer" if n < n_expected else "more"), "packet": size})
                break
        except Exception as e:
            viol.append({"sig": "C02/%s/stream-in-packets-raises-%s" % (tag, type(e).__name__), "packet": size, "msg": str(e)[:120]})
            break


def run_gitpack(case):
    """git writes packs (deep chains, ofs/ref deltas, idx v1/v2, thin), dulwich reads; write_pack_from_container reuses deltas."""
    import dulwich.objects as O
    from dulwich.object_format import SHA1
    from dulwich.object_store import DiskObjectStore
    from dulwich.pack import Pack, PackData, write_pack_from_container
    ensure()
    rng = random.Random(case["seed"])
    d = _st["scratch"].sub("gp%d" % rng.randrange(10 ** 9))
    viol, stats, nt = [], {}, set()
    try:
        core.git(["init", "-q", d])
        depth = rng.choice([1, 5, 50])
        nver = rng.choice([3, 12, 60])
        text = [b"line %d %d\n" % (i, rng.randrange(1000)) for i in range(200)]
        ids = []
        fi = []
        for v in range(nver):
            text[rng.randrange(len(text))] = b"changed in version %d\n" % v
            if rng.random() < 0.3:
                text.insert(rng.randrange(len(text)), b"inserted %d\n" % v)
            body = b"".join(text)
            fi.append(b"commit refs/heads/master\ncommitter C <c@d> %d +0000\ndata 2\nc\nM 644 inline f\ndata %d\n%s\n" % (1700000000 + v, len(body), body))
        core.git(["fast-import", "--quiet"], cwd=d, input=b"".join(fi))
        allids = core.git(["rev-list", "--objects", "--all"], cwd=d).stdout.splitlines()
        allids = [l.split()[0] for l in allids]
        src = {}
        out = core.git(["cat-file", "--batch"], cwd=d, input=b"\n".join(allids) + b"\n").stdout
        pos = 0
        for i in allids:
            nl = out.index(b"\n", pos)
            _, t, sz = out[pos:nl].split()
            src[i] = (t, out[nl + 1:nl + 1 + int(sz)])
            pos = nl + 1 + int(sz) + 1
        idxv = rng.choice([1, 2])
        ofs = rng.random() < 0.6
        args = ["pack-objects", "--depth=%d" % depth, "--window=%d" % rng.choice([2, 10, 50]), "--index-version=%d" % idxv, "-q"]
        if ofs:
            args.append("--delta-base-offset")
        pdir = os.path.join(d, "out")
        os.makedirs(pdir)
        r = core.git(args + [os.path.join(pdir, "pack")], cwd=d, input=b"\n".join(allids) + b"\n")
        name = r.stdout.strip().decode()
        base = os.path.join(pdir, "pack-" + name)
        stats["git_packs"] = 1
        tag = "gitpack/depth%d/%s/idx-v%d" % (depth, "ofs" if ofs else "ref", idxv)
        # validate the reference reader on git's pack first
        pk = open(base + ".pack", "rb").read()
        v0 = []
        verify_pack_bytes(pk, open(base + ".idx", "rb").read(), src, idxv, 20, v0, "REFERENCE-ON-GIT-PACK")
        viol += v0
        read_back_dulwich(base, SHA1, src, rng, viol, tag, stats)
        stream_in_packets(pk, len(src), rng, viol, tag, stats)
        # chain depth actually produced
        vp = core.git(["verify-pack", "-v", base + ".idx"], cwd=d).stdout
        maxd = 0
        for line in vp.splitlines():
            p = line.split()
            if len(p) >= 7 and p[5].isdigit():
                maxd = max(maxd, int(p[5]))
        stats["max_chain_depth_seen"] = maxd
        # thin pack: objects of the newest commits with negative revs -> add_thin_pack into a store holding the base history
        if nver >= 3:
            cut = rng.randrange(1, nver)
            revs = b"master\n^master~%d\n" % cut
            thin = core.git(["pack-objects", "--thin", "--stdout", "--revs", "-q"] + (["--delta-base-offset"] if ofs else []), cwd=d, input=revs).stdout
            d2 = _st["scratch"].sub("thin%d" % rng.randrange(10 ** 9))
            core.git(["init", "-q", "--bare", d2])
            core.git(["branch", "-f", "old", "master~%d" % cut], cwd=d)
            core.git(["fetch", "-q", d, "old:refs/heads/old"], cwd=d2)
            store = DiskObjectStore(os.path.join(d2, "objects"))
            try:
                if rng.random() < 0.6:
                    pkts = Packets(thin, rng.choice([19, 21, 24, 33, 57, 100, 120]))
                    store.add_thin_pack(pkts.read_all, pkts.read_some)
                    stats["thin_packs_packetised"] = 1
                else:
                    f = io.BytesIO(thin)
                    store.add_thin_pack(f.read, None)
                stats["thin_packs"] = 1
                missing = [i for i in src if i not in store]
                if missing:
                    viol.append({"sig": "C02/%s/thin-pack-objects-missing-after-add_thin_pack" % tag, "n": len(missing)})
                else:
                    for i in rng.sample(sorted(src), min(20, len(src))):
                        o = store[i]
                        if (o.type_name, o.as_raw_string()) != src[i]:
                            viol.append({"sig": "C02/%s/thin-pack-object-differs" % tag})
                            break
                fs = core.git(["fsck", "--full", "--strict", "--no-dangling"], cwd=d2, check=False)
                if fs.returncode != 0:
                    viol.append({"sig": "C02/%s/git-fsck-rejects-store-after-add_thin_pack" % tag, "err": fs.stderr.decode(errors="replace")[-200:]})
            except Exception as e:
                viol.append({"sig": "C02/%s/add_thin_pack-raises-%s" % (tag, type(e).__name__), "msg": str(e)[:150]})
            finally:
                store.close()
                shutil.rmtree(d2, ignore_errors=True)
        # reuse of stored deltas: dulwich writes a pack for a subset from a store holding git's delta pack
        shutil.copy(base + ".pack", os.path.join(d, ".git", "objects", "pack", os.path.basename(base) + ".pack"))
        shutil.copy(base + ".idx", os.path.join(d, ".git", "objects", "pack", os.path.basename(base) + ".idx"))
        for f_ in os.listdir(os.path.join(d, ".git", "objects")):
            if len(f_) == 2:
                shutil.rmtree(os.path.join(d, ".git", "objects", f_))
        store = DiskObjectStore(os.path.join(d, ".git", "objects"))
        try:
            subset = rng.sample(sorted(src), rng.randint(1, len(src)))
            reuse = rng.random() < 0.7
            buf = io.BytesIO()
            haves = set(rng.sample(sorted(src), rng.randint(0, 3))) if rng.random() < 0.3 else None
            entries, csum = write_pack_from_container(buf.write, store, [(i, None) for i in subset], SHA1, reuse_deltas=reuse,
                                                      deltify=rng.choice([None, False, True]), other_haves=haves)
            stats["reuse_packs"] = 1
            sub_src = {i: src[i] for i in subset}
            ext = {bytes.fromhex(i.decode()): src[i] for i in (haves or ())}
            verify_pack_bytes(buf.getvalue(), None, sub_src, None, 20, viol, "from_container/reuse=%s/haves=%s" % (reuse, bool(haves)), external=ext)
        except Exception as e:
            viol.append({"sig": "C02/from_container/raises-%s" % type(e).__name__, "msg": str(e)[:150]})
        finally:
            store.close()
        nt.add("gp:d%d:%s:v%d:n%d:chain%d" % (depth, ofs, idxv, nver, min(maxd, 50)))
    finally:
        shutil.rmtree(d, ignore_errors=True)
    return {"viol": dedupe(viol), "stats": stats, "nontrivial": sorted(nt), "evaluations": 1}


def run_ofsdist(case):
    """offset deltas whose distance to the base sweeps the varint carry boundaries of the base-offset encoding (multiples of 128 in the
    second and third digit: 16384.., 32768.., 2^21..): base, an incompressible filler of chosen size (level 0: the stored size is known),
    delta. Written by dulwich, read by dulwich, the reference reader and git index-pack."""
    from dulwich.object_format import SHA1
    from dulwich.objects import Blob
    from dulwich.pack import REF_DELTA, UnpackedObject, create_delta, full_unpacked_object, write_pack_data, write_pack_index
    ensure()
    rng = random.Random(case["seed"])
    viol, stats, nt = [], {}, set()
    d = _st["scratch"].sub("od%d" % rng.randrange(10 ** 9))
    try:
        for fill in case["fills"]:
            base_blob = Blob.from_string(b"".join(b"base line %d\n" % i for i in range(30)))
            target = Blob.from_string(base_blob.data + b"one more line %d\n" % fill)
            filler = Blob.from_string(rng.randbytes(fill))
            delta = create_delta(base_blob.data, target.data)
            delta = b"".join(delta) if not isinstance(delta, bytes) else delta
            recs = [full_unpacked_object(base_blob), full_unpacked_object(filler),
                    UnpackedObject(REF_DELTA, delta_base=base_blob.sha().digest(), decomp_chunks=[delta], sha=target.sha().digest())]
            src = {o.id: (o.type_name, o.as_raw_string()) for o in (base_blob, filler, target)}
            basep = os.path.join(d, "pack-%d" % fill)
            with open(basep + ".pack", "wb") as f:
                entries, csum = write_pack_data(f.write, iter(recs), SHA1, num_records=3, compression_level=0)
            ents = sorted((k, v[0], v[1]) for k, v in entries.items())
            dist = entries[target.sha().digest()][0] - entries[base_blob.sha().digest()][0]
            with open(basep + ".idx", "wb") as f:
                write_pack_index(f, ents, csum, version=2)
            tag = "ofsdist/%s" % ("carry-window" if (dist >> 7) % 128 == 0 or (dist >> 14) % 128 == 0 else "plain")
            stats["ofs_distances_swept"] = stats.get("ofs_distances_swept", 0) + 1
            nt.add("ofsdist:%d" % (dist >> 7))
            pk = open(basep + ".pack", "rb").read()
            verify_pack_bytes(pk, open(basep + ".idx", "rb").read(), src, 2, 20, viol, tag)
            read_back_dulwich(basep, SHA1, src, rng, viol, tag, stats)
            r = core.git(["index-pack", "--strict", "-o", basep + ".git.idx", basep + ".pack"], cwd=d, check=False)
            if r.returncode != 0:
                viol.append({"sig": "C02/%s/git-index-pack-rejects" % tag, "distance": dist, "err": r.stderr.decode(errors="replace")[-120:]})
            for ext in (".pack", ".idx", ".git.idx"):
                try:
                    os.unlink(basep + ext)
                except OSError:
                    pass
            if viol:
                viol[-1]["distance"] = dist
                break
    finally:
        shutil.rmtree(d, ignore_errors=True)
    return {"viol": dedupe(viol), "stats": stats, "nontrivial": sorted(nt), "evaluations": len(case["fills"])}


def run_reindex(case):
    """Indexes built by the *reader* side (PackData.create_index v1/v2/v3, DiskObjectStore.add_pack()+commit) from a pack,
    incl. objects whose zlib stream ends on / next to the 64 KiB read-slice boundaries (compression level 0 sweeps)."""
    import dulwich.objects as O
    from dulwich.object_format import SHA1
    from dulwich.object_store import DiskObjectStore
    from dulwich.pack import PackData, write_pack_objects
    ensure()
    rng = random.Random(case["seed"])
    viol, stats, nt = [], {}, set()
    d = _st["scratch"].sub("ri%d" % rng.randrange(10 ** 9))
    try:
        objs = []
        for n in case["sizes"]:
            objs.append(O.Blob.from_string(bytes([rng.randrange(256)]) * n))
        objs += [O.Blob.from_string(b"small %d" % i) for i in range(2)]
        objs = list({o.id: o for o in objs}.values())
        rng.shuffle(objs)
        src = source_map(objs)
        level = case["level"]
        base = os.path.join(d, "pack-ri")
        with open(base + ".pack", "wb") as f:
            write_pack_objects(f.write, objs, SHA1, deltify=False, compression_level=level)
        pk = open(base + ".pack", "rb").read()
        for v in (1, 2, 3):
            pd = PackData(base + ".pack", SHA1)
            try:
                pd.create_index(base + ".idx", version=v)
            except Exception as e:
                viol.append({"sig": "C02/reindex/create_index-v%d-raises-%s" % (v, type(e).__name__), "msg": str(e)[:120]})
                continue
            finally:
                pd.close()
            stats["reindexed"] = stats.get("reindexed", 0) + 1
            verify_pack_bytes(pk, open(base + ".idx", "rb").read(), src, v, 20, viol, "reindex/create_index-v%d/level%d" % (v, level))
            if v == 2:
                git_verify(base, src, 2, viol, "reindex/create_index-v2/level%d" % level, stats)
            os.unlink(base + ".idx")
        # the object store's ingestion path
        import dulwich.pack as DP
        for mm in (True, False):
            # with memory mapping, and through the plain-read fallback the library takes where mmap is unavailable
            mtag = "" if mm else "/no-mmap"
            sd = os.path.join(d, "store" + ("" if mm else "-nommap"))
            os.makedirs(os.path.join(sd, "pack"))
            store = DiskObjectStore(sd)
            saved_mm = DP.has_mmap
            DP.has_mmap = mm and saved_mm
            try:
                f, commit, abort = store.add_pack()
                f.write(pk)
                commit()
                stats["add_pack_commits" + mtag.replace("/", "_")] = stats.get("add_pack_commits" + mtag.replace("/", "_"), 0) + 1
                names = [x[:-5] for x in os.listdir(os.path.join(sd, "pack")) if x.endswith(".pack")]
                for nm in names:
                    b2 = os.path.join(sd, "pack", nm)
                    verify_pack_bytes(open(b2 + ".pack", "rb").read(), open(b2 + ".idx", "rb").read(), src, None, 20, viol, "reindex/add_pack%s/level%d" % (mtag, level))
                    if mm:
                        git_verify(b2, src, 2, viol, "reindex/add_pack/level%d" % level, stats)
                for i in src:
                    o = store[i]
                    if (o.type_name, o.as_raw_string()) != src[i]:
                        viol.append({"sig": "C02/reindex/add_pack%s/lookup-differs" % mtag})
                        break
            except Exception as e:
                viol.append({"sig": "C02/reindex/add_pack%s-raises-%s" % (mtag, type(e).__name__), "msg": str(e)[:150]})
            finally:
                DP.has_mmap = saved_mm
                store.close()
        nt.add("ri:l%d:%s" % (level, ",".join(str(x) for x in case["sizes"][:3])))
    finally:
        shutil.rmtree(d, ignore_errors=True)
    return {"viol": dedupe(viol), "stats": stats, "nontrivial": sorted(nt), "evaluations": 1}


def worker_exit():
    if "scratch" in _st:
        _st["scratch"].cleanup()


def run_case(case):
    return {"write": run_write, "sha256": run_sha256, "bigofs": run_bigofs, "gitpack": run_gitpack,
            "reindex": run_reindex, "ofsdist": run_ofsdist}[case["kind"]](case)


def main(ctx):
    cases = []
    for i in range(ctx.budget(100, 1200)):
        cases.append({"kind": "write", "seed": "%d/w/%d" % (ctx.seed, i), "n": 4})
    for i in range(ctx.budget(16, 100)):
        cases.append({"kind": "sha256", "seed": "%d/s/%d" % (ctx.seed, i)})
    for i in range(ctx.budget(100, 1000)):
        cases.append({"kind": "bigofs", "seed": "%d/b/%d" % (ctx.seed, i)})
    for i in range(ctx.budget(48, 400)):
        cases.append({"kind": "gitpack", "seed": "%d/g/%d" % (ctx.seed, i)})
    # level 0: zlib stream length = size + 5*ceil(size/65535) + 6; sweep sizes whose stream ends around k*65536 (the reader's slice size)
    sweep = list(range(65510, 65540)) + list(range(131030, 131075)) + list(range(196560, 196600, 2))
    for i in range(0, len(sweep), 4):
        cases.append({"kind": "reindex", "seed": "%d/ri/%d" % (ctx.seed, i), "sizes": sweep[i:i + 4], "level": 0})
    # filler sizes such that the base-offset distance crosses 2^14, 2^15, 3*2^14, 2^16 and 2^21 (+- the headers around the filler)
    fills = []
    for centre in (1 << 14, 1 << 15, 3 << 14, 1 << 16, 1 << 21):
        fills += list(range(centre - 460, centre + 140, 3 if not ctx.thorough else 1))
    for i in range(0, len(fills), 25):
        cases.append({"kind": "ofsdist", "seed": "%d/od/%d" % (ctx.seed, i), "fills": fills[i:i + 25]})
    rr = ctx.sub_rng("reindex")
    for i in range(ctx.budget(12, 120)):
        cases.append({"kind": "reindex", "seed": "%d/rr/%d" % (ctx.seed, i), "sizes": [rr.choice([0, 1, 100, 65535, 65536, 70000, 200000]) for _ in range(3)],
                      "level": rr.choice([-1, 0, 1, 9])})
    ctx.rule = ("object sets of 0..30 objects (sizes at 15/16, 2047/2048, 65535/65536/65537, 2^18+-1, duplicates, similar-blob families, all four "
                "types) x writers {write_pack, write_pack_objects, pack_objects_to_data+write_pack_data} x deltify x window 0/1/10 x ofs_delta x "
                "compression -1/0/1/6/9 x idx v1/v2/v3; synthetic idx entries with offsets to 2^62; git pack-objects with depth 1/5/50, "
                "ofs/ref deltas, idx v1/v2, thin packs, every such pack also streamed through PackStreamReader/add_thin_pack in fixed-size packets "
                "(1..130 bytes); offset deltas whose distance to the base sweeps the carry boundaries of the offset varint (2^14, 2^15, 3*2^14, "
                "2^16, 2^21 +-); write_pack_from_container with reused deltas and other_haves. non-trivial = distinct "
                "(writer, options, size class, type mix).")
    ctx.assumptions = ["vt.ref.packfmt is validated against git-written packs in the same run", "byte identity with git's idx demanded only for v2/SHA-1",
                       "delta choices are never compared, only decoded contents", "configurations the code refuses outright are counted, not judged"]

    def on_result(case, out):
        if out["status"] != "ok":
            if out["status"] == "timeout":
                ctx.inconc("timeout " + case["kind"])
            else:
                ctx.violation("C02/%s/harness-%s/%s" % (case["kind"], out["status"], out.get("exc")), case, out)
            return
        res = out["result"]
        ctx.merge(res)
        for v in res.get("viol", []):
            ctx.violation(v["sig"], case, v)
        ctx.sample(case, case["kind"])

    pool.pmap("vt.checks.c02", cases, timeout=900, on_result=on_result, ext_table=getattr(ctx, "ext_table", None))
    for k in ("packs_written", "git_index_pack", "git_packs", "bigofs_indexes", "thin_packs", "reuse_packs", "lookups", "reindexed", "add_pack_commits"):
        if not ctx.stats[k]:
            return "monitor never reached: " + k
    return None
