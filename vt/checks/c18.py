"""C18 — work tree round trip: checkout then stage reproduces the tree; status is exact.

Three observers per step: (1) dulwich (porcelain.status / add / checkout / reset / WorkTree.stage+unstage / Index.commit), (2) an
independent model: HEAD tree from `git ls-tree -r -z`, index from `git ls-files -s -z`, working directory from the harness's own walk
(lstat + read/readlink + own sha1 of "blob <n>\\0"), (3) C git (`git status --porcelain=v1 -z`, `git write-tree`).
Oracles:
  R1 after checkout the disk equals the tree (contents, link targets, exec bits) and all three observers say clean
  R2 staging everything (into the existing index, and into an emptied index) gives the tree id C git computed for the tree
  S1 after every edit, dulwich's staged/unstaged/untracked sets equal the model's; C git must agree with the model, otherwise the
     step is inconclusive (counted), never a violation
  B  switching from any tree to any other leaves disk == target tree and clean status
"""
import hashlib
import os
import random
import shutil
import stat
import time

from vt import core, pool

LEVEL = "exploration"
_st = {}


def worker_exit():
    if "scratch" in _st:
        _st["scratch"].cleanup()


def blob_id(data):
    return hashlib.sha1(b"blob %d\0" % len(data) + data).hexdigest().encode()


NAMES = [b"a", b"b.txt", b"Makefile", b"with space", b"tab\there", b"quote\"d", b"single'q", b"back\\slash", b"new\nline", b"\xff\xfe-latin", b"caf\xc3\xa9",
         b"caf\xe9", b"-dash", b"trail. ", b"st*r?[x]", b"L" * 120, b"#hash", b"~tilde", b"\xe2\x98\x83", b"UPPER", b"upper", b"a.b.c", b"\x01ctl", b"semi;colon",
         b"dollar$", b"..dots", b".hidden", b"x=y", b"@at", b"{b}", b"e\xcc\x81"]
DIRS = [b"dir", b"sub dir", b"d\xff", b"deep", b"nest\xc3\xa9", b"D", b"src", b".cfg"]


def cquote(p):
    out = bytearray(b'"')
    for c in p:
        if c in (0x22, 0x5c):
            out += b"\\" + bytes([c])
        elif c < 0x20 or c >= 0x7f:
            out += b"\\%03o" % c
        else:
            out.append(c)
    return bytes(out) + b'"'


def gen_content(rng, i):
    k = rng.random()
    if k < 0.12:
        return b""
    if k < 0.5:
        return b"line %d\n" % i * rng.choice([1, 3, 50])
    if k < 0.62:
        return bytes(rng.getrandbits(8) for _ in range(rng.choice([1, 7, 300])))
    if k < 0.7:
        return b"crlf line\r\nsecond\r\n" * rng.choice([1, 4])
    if k < 0.76:
        return rng.randbytes(rng.choice([70000, 300000]))
    if k < 0.84:
        return b"no newline at end %d" % i
    if k < 0.9:
        return b"target-%d" % rng.randrange(3)        # same bytes a symlink may carry
    return b"\0\0binary\0%d" % i


def gen_paths(rng, n):
    paths = set()
    tries = 0
    while len(paths) < n and tries < 200:
        tries += 1
        depth = rng.choice([0, 0, 1, 1, 2])
        comps = [rng.choice(DIRS) for _ in range(depth)] + [rng.choice(NAMES)]
        p = b"/".join(comps)
        # no path may be a prefix directory of another
        if any(q == p or q.startswith(p + b"/") or p.startswith(q + b"/") for q in paths):
            continue
        paths.add(p)
    return sorted(paths)


def gen_tree(rng, n):
    t = {}
    for i, p in enumerate(gen_paths(rng, n)):
        k = rng.random()
        if k < 0.15:
            t[p] = (0o120000, rng.choice([b"target-%d" % rng.randrange(3), b"a", b"../x", b"dir", b"/abs/olute", b"dang ling", b"\xff\xfe"]))
        elif k < 0.35:
            t[p] = (0o100755, gen_content(rng, i))
        else:
            t[p] = (0o100644, gen_content(rng, i))
    return t


def mutate_tree(rng, t):
    """a related tree: content edits, mode-only flips, type changes, adds, deletes, file<->dir."""
    u = dict(t)
    keys = sorted(u)
    for p in rng.sample(keys, min(len(keys), rng.randrange(1, 5))):
        if p not in u:
            continue
        m, c = u[p]
        k = rng.random()
        if k < 0.25:
            u[p] = (m, c + b"more\n" if m != 0o120000 else c + b"x")
        elif k < 0.45 and m != 0o120000:
            u[p] = (0o100755 if m == 0o100644 else 0o100644, c)          # mode only, same blob
        elif k < 0.6:
            u[p] = (0o120000, c if c and b"\0" not in c and len(c) < 200 else b"target-1") if m != 0o120000 else (0o100644, c)   # type change, same bytes
        elif k < 0.75:
            del u[p]
        elif k < 0.88:
            # file -> directory
            del u[p]
            if not any(q.startswith(p + b"/") for q in u):
                u[p + b"/inner"] = (0o100644, b"inner\n")
                u[p + b"/" + rng.choice(NAMES)] = (0o100644, c)
        else:
            # directory -> file (collapse the parent)
            if b"/" in p:
                parent = p.rsplit(b"/", 1)[0]
                for q in [q for q in u if q.startswith(parent + b"/")]:
                    del u[q]
                if not any(q == parent or parent.startswith(q + b"/") for q in u):
                    u[parent] = (0o100644, b"was a directory\n")
    for i in range(rng.randrange(0, 3)):
        for p in gen_paths(rng, 1):
            if not any(q == p or q.startswith(p + b"/") or p.startswith(q + b"/") for q in u):
                u[p] = (0o100644, gen_content(rng, 100 + i))
    if not u:
        u[b"a"] = (0o100644, b"a\n")
    return u


def import_trees(d, trees):
    """commit each tree on its own branch t<i> with git fast-import."""
    s = []
    for i, t in enumerate(trees):
        s.append(b"commit refs/heads/t%d\ncommitter C <c@d> %d +0000\ndata 2\nt%d\ndeleteall\n" % (i, 1700000000 + i, i % 10))
        for p, (m, c) in sorted(t.items()):
            s.append(b"M %o inline %s\ndata %d\n%s\n" % (m, cquote(p), len(c), c))
        s.append(b"\n")
    core.git(["fast-import", "--quiet"], cwd=d, input=b"".join(s))
    ids = []
    for i in range(len(trees)):
        ids.append((core.git(["rev-parse", "refs/heads/t%d" % i], cwd=d).stdout.strip(), core.git(["rev-parse", "refs/heads/t%d^{tree}" % i], cwd=d).stdout.strip()))
    return ids


def walk_disk(wt):
    """{path: (mode, blob id)} from the harness's own walk."""
    out = {}
    wtb = os.fsencode(wt)
    for base, dirs, files in os.walk(wtb):
        if base == wtb and b".git" in dirs:
            dirs.remove(b".git")
        # symlinks to directories are listed in dirs by os.walk
        for dn in list(dirs):
            p = os.path.join(base, dn)
            if os.path.islink(p):
                dirs.remove(dn)
                files.append(dn)
        for f in files:
            p = os.path.join(base, f)
            rel = os.path.relpath(p, wtb)
            st = os.lstat(p)
            if stat.S_ISLNK(st.st_mode):
                out[rel] = (0o120000, blob_id(os.readlink(p)))
            elif stat.S_ISREG(st.st_mode):
                with open(p, "rb") as fh:
                    out[rel] = (0o100755 if st.st_mode & 0o100 else 0o100644, blob_id(fh.read()))
    return out


def git_index(wt):
    out = {}
    for rec in core.git(["ls-files", "-s", "-z"], cwd=wt).stdout.split(b"\0"):
        if not rec:
            continue
        meta, p = rec.split(b"\t", 1)
        m, sha, stage = meta.split()
        if stage == b"0":
            out[p] = (int(m, 8), sha)
    return out


def git_tree(wt, rev):
    out = {}
    r = core.git(["ls-tree", "-r", "-z", rev], cwd=wt, check=False)
    if r.returncode != 0:
        return out
    for rec in r.stdout.split(b"\0"):
        if not rec:
            continue
        meta, p = rec.split(b"\t", 1)
        m, _t, sha = meta.split()
        out[p] = (int(m, 8), sha)
    return out


def model_status(H, I, W):
    staged = {"add": sorted(p for p in I if p not in H), "delete": sorted(p for p in H if p not in I),
              "modify": sorted(p for p in I if p in H and H[p] != I[p])}
    unstaged = sorted(p for p in I if W.get(p) != I[p])
    untracked = sorted(p for p in W if p not in I)
    return staged, unstaged, untracked


def collapse_untracked(untracked, I):
    """git's --untracked-files=normal: an untracked file is shown as its topmost ancestor directory that holds no tracked path."""
    out = set()
    for u in untracked:
        parts = u.split(b"/")
        shown = u
        for k in range(1, len(parts)):
            d = b"/".join(parts[:k]) + b"/"
            if not any(p.startswith(d) for p in I):
                shown = d
                break
        out.add(shown)
    return sorted(out)


def git_untracked_normal(wt):
    r = core.git(["status", "--porcelain=v1", "-z", "--untracked-files=normal", "--no-renames", "--ignore-submodules=all"], cwd=wt,
                 extra_cfg=["core.quotepath=false", "status.renames=false"])
    return sorted(rec[3:] for rec in r.stdout.split(b"\0") if rec[:2] == b"??")


def dul_untracked_normal(wt):
    from dulwich import porcelain
    s = porcelain.status(wt, untracked_files="normal")
    return sorted(os.fsencode(p) if isinstance(p, str) else p for p in s.untracked)


def git_status(wt):
    r = core.git(["status", "--porcelain=v1", "-z", "--untracked-files=all", "--no-renames", "--ignore-submodules=all"], cwd=wt,
                 extra_cfg=["core.quotepath=false", "status.renames=false"])
    staged = {"add": [], "delete": [], "modify": []}
    unstaged, untracked = [], []
    for rec in r.stdout.split(b"\0"):
        if not rec:
            continue
        x, y, p = rec[0:1], rec[1:2], rec[3:]
        if x == b"?" and y == b"?":
            untracked.append(p)
            continue
        if x == b"A":
            staged["add"].append(p)
        elif x == b"D":
            staged["delete"].append(p)
        elif x in (b"M", b"T"):
            staged["modify"].append(p)
        if y in (b"M", b"D", b"T"):
            unstaged.append(p)
    return {k: sorted(v) for k, v in staged.items()}, sorted(unstaged), sorted(untracked)


def dul_status(wt):
    from dulwich import porcelain
    s = porcelain.status(wt, untracked_files="all")
    staged = {k: sorted(os.fsencode(p) if isinstance(p, str) else p for p in s.staged.get(k, [])) for k in ("add", "delete", "modify")}
    unstaged = sorted(os.fsencode(p) if isinstance(p, str) else p for p in s.unstaged)
    untracked = sorted(os.fsencode(p) if isinstance(p, str) else p for p in s.untracked)
    return staged, unstaged, untracked


def name_class(p):
    try:
        p.decode("utf-8")
        utf = True
    except UnicodeDecodeError:
        utf = False
    if not utf:
        return "non-utf8-name"
    if any(c < 0x20 or c in b'"\\' for c in p):
        return "name-needing-quoting"
    if any(c >= 0x80 for c in p):
        return "utf8-name"
    return "plain-name"


def describe_diff(kind, got, want, H, I, W):
    """mechanism tag for a status disagreement on one path."""
    extra = sorted(set(got) - set(want))
    missing = sorted(set(want) - set(got))
    tags = []
    for p in missing[:3]:
        if kind == "unstaged":
            i, w = I.get(p), W.get(p)
            if w is None:
                # deleted, or replaced by a directory
                tags.append("missed-deleted")
            elif i[1] == w[1] and i[0] != w[0]:
                if 0o120000 in (i[0], w[0]):
                    tags.append("missed-typechange-same-bytes")
                else:
                    tags.append("missed-exec-bit-change")
            elif i[0] != w[0] and 0o120000 in (i[0], w[0]):
                tags.append("missed-typechange")
            else:
                tags.append("missed-content-change")
        else:
            tags.append("missed")
        tags[-1] += "/" + name_class(p)
    for p in extra[:3]:
        tags.append("spurious/" + name_class(p))
    return sorted(set(tags)), missing, extra


def compare_status(tag, wt, viol, stats, H=None):
    if H is None:
        H = git_tree(wt, "HEAD")
    I = git_index(wt)
    W = walk_disk(wt)
    ms, mu, mt = model_status(H, I, W)
    try:
        gs, gu, gt = git_status(wt)
    except core.GitError as e:
        stats["inconclusive_git_status_failed"] = stats.get("inconclusive_git_status_failed", 0) + 1
        return False
    stats["status_comparisons"] = stats.get("status_comparisons", 0) + 1
    if (gs, gu, gt) != (ms, mu, mt):
        # the model and C git disagree (racy timestamps, directory/file edge): not dulwich's problem -> inconclusive
        stats["inconclusive_model_vs_git"] = stats.get("inconclusive_model_vs_git", 0) + 1
        try:
            d3 = dul_status(wt)
            side = "model" if d3 == (ms, mu, mt) else ("git" if d3 == (gs, gu, gt) else "neither")
        except Exception:
            side = "raised"
        stats["inconclusive_dulwich_sides_with_" + side] = stats.get("inconclusive_dulwich_sides_with_" + side, 0) + 1
        return False
    try:
        ds, du, dt = dul_status(wt)
    except (MemoryError, RecursionError):
        raise
    except Exception as e:
        cls = sorted(set(name_class(p) for p in list(I) + list(W)))
        viol.append({"sig": "C18/%s/status-raises-%s/%s" % (tag, type(e).__name__, "+".join(c for c in cls if c != "plain-name") or "plain-name"), "msg": str(e)[:200]})
        return False
    ok = True
    for kind, got, want in (("staged-add", ds["add"], ms["add"]), ("staged-delete", ds["delete"], ms["delete"]), ("staged-modify", ds["modify"], ms["modify"]),
                            ("unstaged", du, mu), ("untracked", dt, mt)):
        if got != want:
            ok = False
            tags, missing, extra = describe_diff(kind, got, want, H, I, W)
            for tg in tags:
                viol.append({"sig": "C18/%s/status-%s/%s" % (tag, kind, tg), "missing": [core.short(p, 60) for p in missing[:4]], "spurious": [core.short(p, 60) for p in extra[:4]]})
    stats["status_paths_compared"] = stats.get("status_paths_compared", 0) + len(I) + len(W)
    # untracked-files=normal (directories collapsed)
    if mt:
        mn = collapse_untracked(mt, I)
        try:
            gn = git_untracked_normal(wt)
        except core.GitError:
            gn = None
        if gn == mn:
            stats["status_normal_mode_comparisons"] = stats.get("status_normal_mode_comparisons", 0) + 1
            try:
                dn = dul_untracked_normal(wt)
            except (MemoryError, RecursionError):
                raise
            except Exception as e:
                viol.append({"sig": "C18/%s/status-normal-raises-%s" % (tag, type(e).__name__), "msg": str(e)[:200]})
                return False
            if dn != mn:
                ok = False
                missing = sorted(set(mn) - set(dn))
                extra = sorted(set(dn) - set(mn))
                how = []
                if any(x.endswith(b"/") for x in extra) and any(not x.endswith(b"/") and any(x.startswith(e_) for e_ in extra if e_.endswith(b"/")) for x in extra):
                    how.append("directory-listed-and-its-content-too")
                if missing:
                    how.append("missing-" + ("dir" if missing[0].endswith(b"/") else "file"))
                if extra and not how:
                    how.append("spurious-" + ("dir" if extra[0].endswith(b"/") else "file"))
                for h in how or ["differs"]:
                    viol.append({"sig": "C18/%s/status-untracked-normal/%s" % (tag, h), "missing": [core.short(p, 60) for p in missing[:4]], "spurious": [core.short(p, 60) for p in extra[:4]]})
        else:
            stats["inconclusive_normal_model_vs_git"] = stats.get("inconclusive_normal_model_vs_git", 0) + 1
    return ok


def compare_disk(tag, wt, tree, viol, stats):
    W = walk_disk(wt)
    want = {p: (m, blob_id(c)) for p, (m, c) in tree.items()}
    stats["disk_entries_compared"] = stats.get("disk_entries_compared", 0) + len(want)
    if W != want:
        miss = sorted(set(want) - set(W))
        extra = sorted(set(W) - set(want))
        diff = sorted(p for p in want if p in W and W[p] != want[p])
        how = []
        for p in diff[:3]:
            if W[p][1] == want[p][1]:
                how.append("mode-differs(%o-on-disk-vs-%o)" % (W[p][0], want[p][0]))
            elif W[p][0] != want[p][0]:
                how.append("type-differs")
            else:
                how.append("content-differs")
        if miss:
            how.append("missing-on-disk/" + name_class(miss[0]))
        if extra:
            how.append("left-over-on-disk")
        for h in sorted(set(how)):
            viol.append({"sig": "C18/%s/disk-differs-from-tree/%s" % (tag, h), "missing": [core.short(p, 60) for p in miss[:3]], "extra": [core.short(p, 60) for p in extra[:3]],
                         "differs": [core.short(p, 60) for p in diff[:3]]})
        return False
    return True


def all_files_abs(wt):
    out = []
    wtb = os.fsencode(wt)
    for base, dirs, files in os.walk(wtb):
        if base == wtb and b".git" in dirs:
            dirs.remove(b".git")
        for dn in list(dirs):
            if os.path.islink(os.path.join(base, dn)):
                dirs.remove(dn)
                files.append(dn)
        for f in files:
            out.append(os.path.join(base, f))
    return out


def settle():
    """let the coarse file-system clock tick so that later edits are not racily clean (the racy case is driven explicitly)."""
    time.sleep(0.012)


def run_case(case):
    from dulwich import porcelain
    from dulwich.repo import Repo
    rng = random.Random(case["seed"])
    if "scratch" not in _st:
        _st["scratch"] = core.Scratch("c18-")
        import logging
        logging.disable(logging.WARNING)
    sc = _st["scratch"]
    top = sc.sub("t%d" % rng.randrange(1 << 30))
    wt = os.path.join(top, "wt")
    viol, stats, feats = [], {}, set()
    trees = [gen_tree(rng, rng.randrange(2, 9))]
    for _ in range(2):
        trees.append(mutate_tree(rng, rng.choice(trees)))
    for t in trees:
        for p in t:
            feats.add(name_class(p))
    how = case.get("how") or rng.choice(["clone", "reset-hard", "checkout"])
    if how == "clone":
        src = os.path.join(top, "src.git")
        core.git(["init", "-q", "--bare", src])
        ids = import_trees(src, trees)
        core.git(["symbolic-ref", "HEAD", "refs/heads/t0"], cwd=src)
    else:
        core.git(["init", "-q", wt])
        ids = import_trees(wt, trees)
    # ---------------- R1: checkout
    try:
        if how == "clone":
            porcelain.clone(src, wt, errstream=open(os.devnull, "wb")).close()
            for i in range(1, len(trees)):
                core.git(["branch", "-q", "t%d" % i, "origin/t%d" % i], cwd=wt)
        elif how == "reset-hard":
            core.git(["symbolic-ref", "HEAD", "refs/heads/t0"], cwd=wt)
            porcelain.reset(wt, "hard", b"HEAD")
        else:
            # start from an empty commit so that the checkout really materialises the tree
            core.git(["mktree"], cwd=wt, input=b"")       # writes the empty tree object
            empty = core.git(["commit-tree", "-m", "empty", "4b825dc642cb6eb9a060e54bf8d69288fbee4904"], cwd=wt).stdout.strip()
            core.git(["update-ref", "refs/heads/empty", empty.decode()], cwd=wt)
            core.git(["symbolic-ref", "HEAD", "refs/heads/empty"], cwd=wt)
            core.git(["reset", "-q", "--hard"], cwd=wt)
            porcelain.checkout(wt, b"t0")
    except (MemoryError, RecursionError):
        raise
    except Exception as e:
        cls = sorted(set(name_class(p) for p in trees[0]))
        viol.append({"sig": "C18/%s/checkout-raises-%s/%s" % (how, type(e).__name__, "+".join(c for c in cls if c != "plain-name") or "plain-name"), "msg": str(e)[:200]})
        shutil.rmtree(top, ignore_errors=True)
        return {"viol": viol, "stats": stats, "evaluations": 1, "nontrivial": ["%s|raised" % how]}
    core.git(["config", "core.autocrlf", "false"], cwd=wt)
    ok = compare_disk("checkout:" + how, wt, trees[0], viol, stats)
    if ok:
        compare_status("after-checkout:" + how, wt, viol, stats)
    # ---------------- R2: stage everything -> same tree id
    if ok and not viol:
        try:
            r = Repo(wt)
            try:
                if rng.random() < 0.5:
                    os.unlink(r.index_path())
                    feats.add("restage-into-empty-index")
                # "stage everything" = add of the work tree root (add(<symlink to a directory>) is specified by the repository's own
                # tests to follow the link, so per-file paths are not the same operation)
                porcelain.add(r, paths=[wt])
                got = r.open_index().commit(r.object_store)
            finally:
                r.close()
            stats["roundtrip_tree_ids_compared"] = stats.get("roundtrip_tree_ids_compared", 0) + 1
            if got != ids[0][1]:
                I = git_index(wt)
                want = {p: (m, blob_id(c)) for p, (m, c) in trees[0].items()}
                bad = sorted(p for p in set(I) | set(want) if I.get(p) != want.get(p))
                tagp = "mode" if bad and I.get(bad[0]) and want.get(bad[0]) and I[bad[0]][1] == want[bad[0]][1] else ("missing" if bad and bad[0] not in I else "content")
                viol.append({"sig": "C18/roundtrip/staged-tree-id-differs/%s/%s" % (tagp, name_class(bad[0]) if bad else "?"), "bad": [core.short(p, 60) for p in bad[:4]]})
            gw = core.git(["write-tree"], cwd=wt, check=False).stdout.strip()
            if gw and gw != ids[0][1] and got == ids[0][1]:
                viol.append({"sig": "C18/roundtrip/git-write-tree-disagrees-with-dulwich-index"})
        except (MemoryError, RecursionError):
            raise
        except Exception as e:
            cls = sorted(set(name_class(p) for p in trees[0]))
            viol.append({"sig": "C18/roundtrip/add-raises-%s/%s" % (type(e).__name__, "+".join(c for c in cls if c != "plain-name") or "plain-name"), "msg": str(e)[:200]})
        if not viol:
            compare_status("after-restage", wt, viol, stats)
    # ---------------- S1: edits
    edits_done = []
    cur = 0
    if not viol:
        settle()
        for step in range(rng.randrange(2, 9)):
            W = walk_disk(wt)
            I = git_index(wt)
            files = sorted(W)
            e = rng.choice(["modify-size", "modify-same-size", "modify-same-size", "chmod", "chmod", "delete", "add-untracked", "add-untracked-dir", "add-untracked-prefix-dir", "file-to-symlink",
                            "symlink-to-file", "file-to-dir", "dir-to-file", "stage", "stage", "unstage", "rm-cached", "stage-all", "commit", "switch"])
            wtb = os.fsencode(wt)
            try:
                if e in ("modify-size", "modify-same-size", "chmod", "delete", "file-to-symlink", "file-to-dir") and files:
                    reg = [p for p in files if W[p][0] != 0o120000]
                    if not reg:
                        continue
                    p = rng.choice(reg)
                    fp = os.path.join(wtb, p)
                    data = open(fp, "rb").read()
                    if e == "modify-size":
                        open(fp, "ab").write(b"appended\n")
                    elif e == "modify-same-size":
                        if not data:
                            continue
                        k = rng.randrange(len(data))
                        nd = data[:k] + bytes([data[k] ^ 0x20]) + data[k + 1:]
                        with open(fp, "r+b") as fh:
                            fh.write(nd)
                    elif e == "chmod":
                        if rng.random() < 0.5:
                            os.chmod(fp, os.lstat(fp).st_mode ^ 0o111)
                        else:
                            # modes whose execute bits are not all-or-nothing, and umask variants: git tracks the owner's x bit only
                            os.chmod(fp, rng.choice([0o700, 0o744, 0o750, 0o654, 0o645, 0o600, 0o664, 0o775, 0o755, 0o644, 0o711, 0o610]))
                            feats.add("chmod-odd-mode")
                    elif e == "delete":
                        os.unlink(fp)
                    elif e == "file-to-symlink":
                        os.unlink(fp)
                        tgt = data if data and b"\0" not in data and len(data) < 100 and rng.random() < 0.6 else b"target-2"
                        os.symlink(tgt, fp)
                        if tgt == data:
                            feats.add("typechange-same-bytes")
                    elif e == "file-to-dir":
                        os.unlink(fp)
                        os.mkdir(fp)
                        open(os.path.join(fp, b"inside"), "wb").write(b"inside\n")
                elif e == "symlink-to-file":
                    ln = [p for p in files if W[p][0] == 0o120000]
                    if not ln:
                        continue
                    p = rng.choice(ln)
                    fp = os.path.join(wtb, p)
                    tgt = os.readlink(fp)
                    os.unlink(fp)
                    open(fp, "wb").write(tgt if rng.random() < 0.6 else b"now a file\n")
                elif e == "dir-to-file":
                    ds = sorted(set(p.rsplit(b"/", 1)[0] for p in files if b"/" in p))
                    if not ds:
                        continue
                    dsel = rng.choice(ds)
                    shutil.rmtree(os.path.join(wtb, dsel))
                    open(os.path.join(wtb, dsel), "wb").write(b"dir became file\n")
                elif e == "add-untracked":
                    fp = os.path.join(wtb, rng.choice(NAMES) + b".new")
                    if not os.path.lexists(fp):
                        open(fp, "wb").write(b"untracked\n")
                elif e == "add-untracked-dir":
                    dd = os.path.join(wtb, rng.choice(DIRS) + b".newdir", b"deeper")
                    if not os.path.lexists(os.path.dirname(dd)):
                        os.makedirs(dd)
                        open(os.path.join(dd, rng.choice(NAMES)), "wb").write(b"u\n")
                        if rng.random() < 0.5:
                            open(os.path.join(os.path.dirname(dd), b"second"), "wb").write(b"u2\n")
                        if rng.random() < 0.6:
                            # empty sub-directories next to the one with content, wherever the file system lists them
                            for en in rng.sample([b"0-empty", b"aaa", b"zzz-empty", b"E", b"~last", b"deeper2"], rng.randint(1, 4)):
                                os.makedirs(os.path.join(os.path.dirname(dd), en), exist_ok=True)
                            feats.add("untracked-dir-with-empty-subdirs")
                elif e == "add-untracked-prefix-dir":
                    # an untracked directory whose name is a byte prefix of a tracked sibling (src/ next to src.txt, di/ next to dir/)
                    tops = sorted(set(p.split(b"/")[0] for p in I if len(p.split(b"/")[0]) > 1))
                    if not tops:
                        continue
                    t0 = rng.choice(tops)
                    nm = t0[:rng.randrange(1, len(t0))]
                    dd = os.path.join(wtb, nm)
                    if os.path.lexists(dd) or nm in (b".", b"..", b".git"):
                        continue
                    os.makedirs(os.path.join(dd, b"deep"))
                    open(os.path.join(dd, b"x"), "wb").write(b"u\n")
                    open(os.path.join(dd, b"deep", b"y"), "wb").write(b"u\n")
                elif e == "stage":
                    cand = sorted(set(p for p in W if I.get(p) != W[p]))
                    if not cand:
                        continue
                    p = rng.choice(cand)
                    fp = os.path.join(wtb, p)
                    if os.path.islink(fp) and os.path.isdir(fp):
                        # porcelain.add(<symlink to a directory>) is specified (tests/porcelain) to follow the link; the link itself is
                        # staged through the work tree API
                        r = Repo(wt)
                        try:
                            r.get_worktree().stage([p])
                        finally:
                            r.close()
                        feats.add("stage-link-to-dir-via-worktree")
                    else:
                        porcelain.add(wt, paths=[fp])
                    settle()
                elif e == "stage-all":
                    r = Repo(wt)
                    try:
                        cand = sorted(set(p for p in set(W) | set(I) if I.get(p) != W.get(p)))
                        if not cand:
                            continue
                        r.get_worktree().stage(cand)
                    finally:
                        r.close()
                    settle()
                elif e == "unstage":
                    H = git_tree(wt, "HEAD")
                    cand = sorted(p for p in I if H.get(p) != I[p])
                    if not cand:
                        continue
                    p = rng.choice(cand)
                    r = Repo(wt)
                    try:
                        r.get_worktree().unstage([os.fsdecode(p)])
                    finally:
                        r.close()
                    settle()
                elif e == "rm-cached":
                    if not I:
                        continue
                    p = rng.choice(sorted(I))
                    porcelain.remove(wt, paths=[os.path.join(wtb, p)], cached=True)
                    settle()
                elif e == "commit":
                    porcelain.commit(wt, message=b"step", author=b"A <a@b>", committer=b"A <a@b>")
                    settle()
                elif e == "switch":
                    # only from a clean state
                    H = git_tree(wt, "HEAD")
                    if model_status(H, I, W) != ({"add": [], "delete": [], "modify": []}, [], []):
                        continue
                    head = core.git(["rev-parse", "HEAD"], cwd=wt).stdout.strip()
                    if head not in [c for c, _ in ids]:
                        continue
                    nxt = rng.choice([i for i in range(len(trees)) if ids[i][0] != head] or [0])
                    if ids[nxt][0] == head:
                        continue
                    # by commit id: an earlier "commit" edit may have moved the branch
                    if rng.random() < 0.5:
                        porcelain.checkout(wt, ids[nxt][0])
                    else:
                        porcelain.switch(wt, ids[nxt][0], detach=True)
                    frm = [i for i in range(len(trees)) if ids[i][0] == head][0]
                    stats["branch_switches"] = stats.get("branch_switches", 0) + 1
                    if compare_disk("switch", wt, trees[nxt], viol, stats):
                        compare_status("after-switch", wt, viol, stats)
                    else:
                        viol[-1]["from_to"] = [sorted("%o %s" % (m, core.short(p, 30)) for p, (m, c) in trees[frm].items())[:8],
                                               sorted("%o %s" % (m, core.short(p, 30)) for p, (m, c) in trees[nxt].items())[:8]]
                    settle()
                    edits_done.append(e)
                    if viol:
                        break
                    continue
            except (MemoryError, RecursionError):
                raise
            except Exception as ex:
                if e in ("stage", "stage-all", "unstage", "rm-cached", "commit"):
                    # an index operation that refuses is not a status error: the state it left behind must still be reported exactly
                    stats["edit_refused_%s_%s" % (e, type(ex).__name__)] = stats.get("edit_refused_%s_%s" % (e, type(ex).__name__), 0) + 1
                    e = e + "-refused"
                else:
                    cls = sorted(set(name_class(p) for p in list(W) + list(I)))
                    viol.append({"sig": "C18/edit-%s/raises-%s/%s" % (e, type(ex).__name__, "+".join(c for c in cls if c != "plain-name") or "plain-name"), "msg": str(ex)[:200],
                                 "edits": edits_done})
                    break
            edits_done.append(e)
            feats.add(e)
            if e in ("stage", "stage-all"):
                # what was staged must now be in the index exactly as on disk
                I2 = git_index(wt)
                W2 = walk_disk(wt)
                if e == "stage" and I2.get(p) != W2.get(p):
                    how_ = "mode" if I2.get(p) and W2.get(p) and I2[p][1] == W2[p][1] else ("missing" if p not in I2 else "content")
                    viol.append({"sig": "C18/stage/index-entry-differs-from-disk/%s/%s" % (how_, name_class(p)), "path": core.short(p, 60), "index": str(I2.get(p)), "disk": str(W2.get(p))})
            compare_status("after-" + e, wt, viol, stats)
            if viol:
                viol[-1]["edits"] = list(edits_done)
                break
    # ---------------- R3: reset --hard from whatever state the edits left restores every tracked path
    if not viol:
        try:
            porcelain.reset(wt, "hard", b"HEAD")
            refused = None
        except (MemoryError, RecursionError):
            raise
        except Exception as ex:
            refused = type(ex).__name__       # an untracked file or directory in the way is a legitimate refusal
            stats["reset_hard_refused_" + refused] = stats.get("reset_hard_refused_" + refused, 0) + 1
        if refused is None:
            H = git_tree(wt, "HEAD")
            W = walk_disk(wt)
            stats["reset_hard_restores_checked"] = stats.get("reset_hard_restores_checked", 0) + 1
            badp = sorted(p for p in H if W.get(p) != H[p] and H[p][0] != 0o160000)
            if badp:
                p0 = badp[0]
                how_ = "missing" if p0 not in W else ("mode" if W[p0][1] == H[p0][1] else ("type" if (W[p0][0] == 0o120000) != (H[p0][0] == 0o120000) else "content"))
                viol.append({"sig": "C18/reset-hard/tracked-path-not-restored/%s/%s" % (how_, name_class(p0)), "paths": [core.short(p, 60) for p in badp[:4]], "edits": list(edits_done)})
            else:
                compare_status("after-reset-hard", wt, viol, stats)
                if viol:
                    viol[-1]["edits"] = list(edits_done)
    # ---------------- B: all ordered pairs of trees (clean switches)
    if not viol and case.get("pairs", True):
        try:
            # back to a clean state through C git (independent of the code under observation)
            # (the index is dropped first: C git trusts stat data, and an index written by dulwich does not carry git's racy-clean smudge)
            if os.path.exists(os.path.join(wt, ".git", "index")):
                os.unlink(os.path.join(wt, ".git", "index"))
            core.git(["reset", "-q", "--hard"], cwd=wt)
            core.git(["clean", "-fdxq"], cwd=wt)
            order = [(a, b) for a in range(len(trees)) for b in range(len(trees)) if a != b and ids[a][0] != ids[b][0]]
            rng.shuffle(order)
            for a, b in order[:4]:
                if os.path.exists(os.path.join(wt, ".git", "index")):
                    os.unlink(os.path.join(wt, ".git", "index"))
                core.git(["checkout", "-q", "-f", "--detach", ids[a][0].decode()], cwd=wt)
                core.git(["clean", "-fdxq"], cwd=wt)
                settle()
                porcelain.checkout(wt, ids[b][0])
                stats["branch_switches"] = stats.get("branch_switches", 0) + 1
                if compare_disk("switch-pair", wt, trees[b], viol, stats):
                    compare_status("after-switch-pair", wt, viol, stats)
                else:
                    viol[-1]["from_to"] = [sorted("%o %s" % (m, core.short(p, 30)) for p, (m, c) in trees[a].items())[:8],
                                           sorted("%o %s" % (m, core.short(p, 30)) for p, (m, c) in trees[b].items())[:8]]
                if viol:
                    break
        except (MemoryError, RecursionError):
            raise
        except Exception as ex:
            viol.append({"sig": "C18/switch-pair/raises-%s" % type(ex).__name__, "msg": str(ex)[:300]})
    shutil.rmtree(top, ignore_errors=True)
    seen, out = set(), []
    for v in viol:
        if v["sig"] not in seen:
            seen.add(v["sig"])
            out.append(v)
    return {"viol": out, "stats": stats, "evaluations": stats.get("status_comparisons", 0) + stats.get("roundtrip_tree_ids_compared", 0),
            "nontrivial": ["%s|%s|%s" % (how, ",".join(sorted(feats)), ">".join(edits_done))], "feats": sorted(feats)}


def main(ctx):
    n = ctx.budget(700, 12000)
    cases = [{"seed": "%d/%d" % (ctx.seed, i)} for i in range(n)]
    ctx.rule = ("random trees of 2-8 valid paths (31 name shapes: spaces, tabs, quotes, backslashes, newlines, control bytes, non-UTF-8, NFD/NFC, 120-byte "
                "names, leading dash, glob characters; nested up to 2 deep) with empty/text/binary/CRLF/70-300 KB contents, executables and symlinks, plus "
                "two related trees (content, exec-bit-only, type-change with identical bytes, add/delete, file<->directory); checkout by clone / reset "
                "--hard / checkout; restage into the existing or an emptied index; 2-8 random edits {modify same/different size, chmod, delete, untracked "
                "file/dir, file<->symlink, file<->dir, stage, WorkTree.stage, unstage, rm --cached, commit, switch} with a status comparison after each; "
                "then up to 4 ordered pairs of clean branch switches. non-trivial = distinct (checkout method, name classes + edit kinds, edit sequence).")
    ctx.assumptions = ["core.autocrlf=false; no .gitignore/.gitattributes in the trees; untracked-files=all",
                       "a step where the harness model and C git disagree is inconclusive (counted), never a violation",
                       "the harness waits 12 ms after every index write so that edits are not racily clean by accident"]

    def on_result(case, out):
        if out["status"] != "ok":
            if out["status"] == "timeout":
                ctx.inconc("worker timeout: %s" % case)
            else:
                ctx.violation("C18/harness-%s/%s" % (out["status"], out.get("exc")), case, out)
            return
        res = out["result"]
        ctx.merge(res)
        for f in res.get("feats", []):
            ctx.count("feat:" + f)
        for v in res.get("viol", []):
            ctx.violation(v["sig"], case, v)
        if ctx.stats["sampled"] < 4:
            ctx.sample({"case": case, "nontrivial": res["nontrivial"]}, "case")
            ctx.count("sampled")

    pool.pmap("vt.checks.c18", cases, timeout=300, on_result=on_result, ext_table=getattr(ctx, "ext_table", None))
    if ctx.stats["status_comparisons"] < 500:
        return "too few status comparisons (%d)" % ctx.stats["status_comparisons"]
    return None
