"""C12 — tree building, flattening, diffing and patching are mutually consistent.

Reference = flat listings (dict path -> (mode, id)).  The real commit_tree / iter_tree_contents /
tree_lookup_path / tree_changes (all flag variants, RenameDetector) / commit_tree_changes run on a
MemoryObjectStore and on a git-made repository; each TreeChange list is *interpreted* as an edit on
flatten(a) and must give flatten(b); ids are compared with `git write-tree`, raw diffs with
`git diff-tree -r --raw -z`.  Every oracle runs with both the Python and the Rust twins of
_merge_entries/_is_tree/_count_blocks.
"""
import itertools
import os
import random
import shutil
import stat

from vt import core, pool

LEVEL = "exploration"
_st = {}
PATHS = [b"a", b"a.b", b"a/b", b"a-", b"a0", b"a/b/c", b"a b", b"\xc3\xa4", b"A", b"b", b"a/c", b"b/x/y/z", b"a.b/q", b"a0/r", b"a\xff"]
SMALL_PATHS = [b"a", b"a.b", b"a/b", b"a-", b"a0", b"a/b/c", b"b", b"a/c", b"A"]
MODES = [0o100644, 0o100755, 0o120000, 0o160000]


def valid_listing(paths):
    """no path is both a file and a directory prefix of another"""
    ps = set(paths)
    for p in ps:
        parts = p.split(b"/")
        for i in range(1, len(parts)):
            if b"/".join(parts[:i]) in ps:
                return False
    return True


def gen_listing(rng, blobs, universe=PATHS, maxn=7):
    for _ in range(50):
        k = rng.randint(0, maxn)
        ps = rng.sample(universe, min(k, len(universe)))
        if valid_listing(ps):
            return {p: (rng.choice(MODES), rng.choice(blobs)) for p in ps}
    return {}


def mutate_listing(rng, L, blobs):
    """second listing related to the first: mode-only, type-only, content changes, deletions emptying dirs, additions"""
    M = dict(L)
    for _ in range(rng.randint(0, 4)):
        r = rng.random()
        if M and r < 0.2:
            p = rng.choice(sorted(M))
            M[p] = (rng.choice([m for m in MODES if m != M[p][0]]), M[p][1])  # mode/type only
        elif M and r < 0.4:
            p = rng.choice(sorted(M))
            M[p] = (M[p][0], rng.choice(blobs))
        elif M and r < 0.6:
            del M[rng.choice(sorted(M))]
        elif M and r < 0.7:
            # file <-> directory swap
            p = rng.choice(sorted(M))
            v = M.pop(p)
            if b"/" in p:
                q = p.rsplit(b"/", 1)[0]
                for x in [x for x in M if x.startswith(q + b"/")]:
                    del M[x]
                M[q] = v
            else:
                M[p + b"/sub"] = v
        else:
            p = rng.choice(PATHS)
            M2 = dict(M)
            M2[p] = (rng.choice(MODES), rng.choice(blobs))
            if valid_listing(list(M2)):
                M = M2
    return M if valid_listing(list(M)) else dict(L)


def flatten(store, tree_id):
    from dulwich.object_store import iter_tree_contents
    return {e.path: (e.mode, e.sha) for e in iter_tree_contents(store, tree_id)}


def ref_tree_bytes_ok(store, tree_id, viol, what):
    """entries of every (sub)tree in git's canonical order"""
    from dulwich.objects import Tree
    t = store[tree_id]
    raw = t.as_raw_string()
    names = []
    i = 0
    while i < len(raw):
        sp = raw.index(b" ", i)
        nul = raw.index(b"\0", sp)
        mode = int(raw[i:sp], 8)
        name = raw[sp + 1:nul]
        names.append(name + (b"/" if stat.S_ISDIR(mode) else b""))
        sha = raw[nul + 1:nul + 21].hex().encode()
        if stat.S_ISDIR(mode):
            ref_tree_bytes_ok(store, sha, viol, what)
        i = nul + 21
    if names != sorted(names):
        viol.append({"sig": "C12/%s/tree-entries-not-in-canonical-order" % what, "names": [n.decode("latin1") for n in names]})
    if len(t) == 0 and what != "root-empty":
        pass


def apply_changes(La, changes, viol, tag, include_trees=False):
    """Interpret TreeChanges as an edit on a flat listing."""
    R = dict(La)
    olds, news, removals, additions = [], [], [], []
    for c in changes:
        t = c.type
        if include_trees and ((c.old and c.old.mode and stat.S_ISDIR(c.old.mode)) or (c.new and c.new.mode and stat.S_ISDIR(c.new.mode))):
            # tree entries are reported in addition to their contents: ignore tree-typed sides
            if (c.old is None or c.old.path is None or stat.S_ISDIR(c.old.mode or 0)) and (c.new is None or c.new.path is None or stat.S_ISDIR(c.new.mode or 0)):
                continue
        old = c.old if (c.old is not None and c.old.path is not None) else None
        new = c.new if (c.new is not None and c.new.path is not None) else None
        if include_trees:
            if old is not None and stat.S_ISDIR(old.mode):
                old = None
            if new is not None and stat.S_ISDIR(new.mode):
                new = None
        if old is not None:
            olds.append(old.path)
        if new is not None:
            news.append(new.path)
        if t == "unchanged":
            if old is None or new is None or (old.mode, old.sha) != (new.mode, new.sha) or R.get(old.path) != (old.mode, old.sha):
                viol.append({"sig": "C12/%s/unchanged-entry-is-not-unchanged" % tag})
            continue
        if t == "copy":
            if old is not None:
                olds.pop()
                if La.get(old.path) != (old.mode, old.sha):
                    viol.append({"sig": "C12/%s/copy-source-not-in-old-tree" % tag})
            if new is not None:
                additions.append((new.path, (new.mode, new.sha)))
            continue
        # a change list is a set: all old sides are removed first, then all new sides are put in place
        if old is not None:
            if La.get(old.path) != (old.mode, old.sha):
                viol.append({"sig": "C12/%s/old-side-not-in-old-tree/%s" % (tag, t)})
            removals.append(old.path)
        if new is not None:
            additions.append((new.path, (new.mode, new.sha)))
    for p in removals:
        R.pop(p, None)
    for p, v in additions:
        R[p] = v
    if len(set(olds)) != len(olds):
        viol.append({"sig": "C12/%s/old-path-mentioned-twice" % tag})
    if len(set(news)) != len(news):
        viol.append({"sig": "C12/%s/new-path-mentioned-twice" % tag})
    return R


KIND = {0o100000: "file", 0o120000: "symlink", 0o160000: "gitlink", 0o040000: "dir"}


def feature(La, Lb):
    f = set()
    for p in set(La) | set(Lb):
        a, b = La.get(p), Lb.get(p)
        if a and b and a != b:
            if a[1] == b[1]:
                f.add("mode-only" if stat.S_IFMT(a[0]) == stat.S_IFMT(b[0]) else "type-only")
            else:
                f.add("content")
        elif a and not b:
            f.add("del")
        elif b and not a:
            f.add("add")
    for p in La:
        if any(q.startswith(p + b"/") for q in Lb):
            f.add("file-to-dir")
    for p in Lb:
        if any(q.startswith(p + b"/") for q in La):
            f.add("dir-to-file")
    dirs_a = {p.rsplit(b"/", 1)[0] for p in La if b"/" in p}
    dirs_b = {p.rsplit(b"/", 1)[0] for p in Lb if b"/" in p}
    if dirs_a - dirs_b:
        f.add("dir-emptied")
    return "+".join(sorted(f)) or "identical"


class ReadLog:
    """Object store proxy that records which objects a diff reads (the pruning monitor)."""

    def __init__(self, store):
        self._s = store
        self.reads = []

    def __getitem__(self, k):
        self.reads.append(k)
        return self._s[k]

    def __contains__(self, k):
        return k in self._s

    def __getattr__(self, n):
        return getattr(self._s, n)


def tree_dirs(store, tid, prefix=b""):
    """directory path -> tree id, for every directory below (and including) the root"""
    out = {prefix: tid}
    for e in store[tid].iteritems():
        if stat.S_ISDIR(e.mode):
            out.update(tree_dirs(store, e.sha, (prefix + b"/" if prefix else b"") + e.path))
    return out


def must_not_be_read(store, ta, tb):
    """Tree ids that sit only at or below a directory that is identical (same path, same id) in both trees: a diff that prunes
    identical subtrees never needs any of them."""
    da, db = tree_dirs(store, ta), tree_dirs(store, tb)
    same = {d for d in da if d and db.get(d) == da[d]}

    def covered(d):
        return any(d == r or d.startswith(r + b"/") for r in same)
    pruned = {da[d] for d in da if covered(d)} | {db[d] for d in db if covered(d)}
    needed = {da[d] for d in da if not covered(d)} | {db[d] for d in db if not covered(d)}
    return pruned - needed, len(same)


def check_pair(store, blobs, La, Lb, viol, stats, rng, impl):
    from dulwich.diff_tree import RenameDetector, tree_changes
    from dulwich.index import commit_tree
    from dulwich.object_store import commit_tree_changes, tree_lookup_path
    ents = lambda L: [(p, v[1], v[0]) for p, v in L.items()]
    ea = ents(La)
    rng.shuffle(ea)
    ta = commit_tree(store, ea)
    tb = commit_tree(store, ents(Lb))
    stats["pairs"] = stats.get("pairs", 0) + 1
    # (a) flatten(commit_tree(L)) == L, canonical order, lookup
    for L, t, nm in ((La, ta, "a"), (Lb, tb, "b")):
        F = flatten(store, t)
        if F != L:
            viol.append({"sig": "C12/%s/flatten-of-commit_tree-differs" % impl, "L": repr(L)[:300], "F": repr(F)[:300]})
            return
        ref_tree_bytes_ok(store, t, viol, impl)
        for p, v in L.items():
            try:
                got = tree_lookup_path(store.__getitem__, t, p)
                if tuple(got) != v:
                    viol.append({"sig": "C12/%s/tree_lookup_path-wrong-entry" % impl})
            except Exception as e:
                viol.append({"sig": "C12/%s/tree_lookup_path-raises-%s" % (impl, type(e).__name__)})
    # (c) diffs: every flag variant applied to flatten(a) gives flatten(b)
    for kw in ({}, {"want_unchanged": True}, {"include_trees": True}, {"change_type_same": True}, {"want_unchanged": True, "change_type_same": True},
               {"rename_detector": "RD"}, {"rename_detector": "RD", "want_unchanged": True}, {"rename_detector": "RD-reused"}):
        tag = impl + "/diff" + "".join("/" + k for k in sorted(kw)) + ("-reused" if kw.get("rename_detector") == "RD-reused" else "")
        k2 = dict(kw)
        if k2.get("rename_detector") == "RD-reused":
            # one detector object serving many diffs in a row (as Walker and tree_changes_for_merge use it), with a small max_files so
            # that some diffs exceed the limit: nothing of an earlier diff may leak into a later one
            key = ("rd", id(store))
            if key not in _st:
                _st[key] = RenameDetector(store, max_files=rng.choice([1, 2, 3]))
                _st["rd_keepalive"] = store
            k2["rename_detector"] = _st[key]
            stats["reused_detector_diffs"] = stats.get("reused_detector_diffs", 0) + 1
        elif "rename_detector" in k2:
            k2["rename_detector"] = RenameDetector(store)
        log = ReadLog(store)
        if isinstance(k2.get("rename_detector"), RenameDetector) and kw.get("rename_detector") == "RD":
            k2["rename_detector"] = RenameDetector(log)
        try:
            ch = list(tree_changes(log, ta, tb, **k2))
        except Exception as e:
            viol.append({"sig": "C12/%s/raises-%s" % (tag, type(e).__name__), "La": repr(La)[:300], "Lb": repr(Lb)[:300]})
            continue
        stats["diffs"] = stats.get("diffs", 0) + 1
        if not kw.get("want_unchanged") and kw.get("rename_detector") != "RD-reused" and ta != tb:
            # pruning monitor: nothing at or below an identical subtree is read (with and without rename detection)
            forbidden, nsame = must_not_be_read(store, ta, tb)
            if nsame:
                stats["diffs_with_identical_subtrees_watched"] = stats.get("diffs_with_identical_subtrees_watched", 0) + 1
                bad = [r for r in log.reads if r in forbidden]
                if bad:
                    viol.append({"sig": "C12/%s/identical-subtree-not-pruned" % tag, "reads_below_identical_subtrees": len(bad),
                                 "La": repr(La)[:300], "Lb": repr(Lb)[:300]})
        R = apply_changes(La, ch, viol, tag, include_trees=bool(kw.get("include_trees")))
        if R != Lb:
            viol.append({"sig": "C12/%s/applying-changes-to-a-does-not-give-b" % tag, "La": repr(La)[:300], "Lb": repr(Lb)[:300],
                         "changes": repr([(c.type, c.old and c.old.path, c.new and c.new.path) for c in ch])[:400]})
        if not kw.get("want_unchanged") and "rename_detector" not in kw and not kw.get("include_trees"):
            # completeness/minimality: exactly the differing paths are mentioned
            want_paths = {p for p in set(La) | set(Lb) if La.get(p) != Lb.get(p)}
            got_paths = set()
            for c in ch:
                for e in (c.old, c.new):
                    if e is not None and e.path is not None:
                        got_paths.add(e.path)
            if got_paths != want_paths:
                viol.append({"sig": "C12/%s/changed-path-set-differs" % tag, "extra": repr(got_paths - want_paths), "missing": repr(want_paths - got_paths)})
            if kw.get("change_type_same"):
                for c in ch:
                    if c.old is not None and c.new is not None and c.old.path != c.new.path:
                        viol.append({"sig": "C12/%s/modify-with-different-paths" % tag})
            # representation of a change at one path: a type change (what git's raw diff marks T) is a delete plus an add unless
            # change_type_same asks for one entry; everything else is one modify
            shape = {}
            for c in ch:
                for side, e in (("old", c.old), ("new", c.new)):
                    if e is not None and e.path is not None:
                        shape.setdefault(e.path, []).append((c.type, side))
            for p_ in want_paths:
                if p_ in La and p_ in Lb:
                    typechg = stat.S_IFMT(La[p_][0]) != stat.S_IFMT(Lb[p_][0])
                    exp = [("add", "new"), ("delete", "old")] if typechg and not kw.get("change_type_same") else [("modify", "new"), ("modify", "old")]
                    if sorted(shape.get(p_, [])) != exp:
                        viol.append({"sig": "C12/%s/%s-reported-as-%s/%s-to-%s" % (
                            tag, "type-change" if typechg else "modification", "+".join(sorted(set(t_ for t_, _ in shape.get(p_, [])))) or "nothing",
                            KIND.get(stat.S_IFMT(La[p_][0]), "other"), KIND.get(stat.S_IFMT(Lb[p_][0]), "other"))})
    # paths= filter vs reference diff restricted to the prefix
    for flt in rng.sample(sorted(set([b"a", b"a/b", b"a0", b"b", b"a.b", b"d"]) | set(La) | set(Lb)), 2):
        try:
            ch = list(tree_changes(store, ta, tb, paths=[flt]))
        except Exception as e:
            viol.append({"sig": "C12/%s/diff/paths/raises-%s" % (impl, type(e).__name__)})
            continue
        stats["diffs"] = stats.get("diffs", 0) + 1
        want_paths = {p for p in set(La) | set(Lb) if La.get(p) != Lb.get(p) and (p == flt or p.startswith(flt + b"/"))}
        got_paths = set()
        for c in ch:
            for e in (c.old, c.new):
                if e is not None and e.path is not None:
                    got_paths.add(e.path)
        if got_paths != want_paths:
            viol.append({"sig": "C12/%s/diff/paths/filtered-path-set-differs" % impl, "filter": flt.decode("latin1"),
                         "extra": repr(sorted(got_paths - want_paths)), "missing": repr(sorted(want_paths - got_paths))})
    # (e) commit_tree_changes(T, delta) == commit_tree(apply(delta, L))
    delta = []
    for p in sorted(set(La) | set(Lb)):
        if La.get(p) != Lb.get(p):
            if p in Lb:
                delta.append((p, Lb[p][0], Lb[p][1]))
            else:
                delta.append((p, None, None))
    # deletions of files that turn into directories must come before additions below them (and vice versa):
    delta.sort(key=lambda d: (d[1] is not None, d[0]))
    try:
        tc = commit_tree_changes(store, store[ta], delta)
        tcid = tc.id if hasattr(tc, "id") else tc
        stats["patches"] = stats.get("patches", 0) + 1
        if tcid != tb:
            viol.append({"sig": "C12/%s/commit_tree_changes-differs-from-rebuild/%s" % (impl, feature(La, Lb)), "La": repr(La)[:300], "delta": repr(delta)[:300],
                         "got": repr(flatten(store, tcid))[:300]})
    except Exception as e:
        viol.append({"sig": "C12/%s/commit_tree_changes-raises-%s/%s" % (impl, type(e).__name__, feature(La, Lb)), "La": repr(La)[:300], "delta": repr(delta)[:300]})
    return ta, tb


def set_impl(python_twins):
    import dulwich.diff_tree as D
    if python_twins:
        D._merge_entries, D._is_tree, D._count_blocks = D._merge_entries_py, D._is_tree_py, D._count_blocks_py
    elif "rust" in _st:
        D._merge_entries, D._is_tree, D._count_blocks = _st["rust"]


def init():
    import dulwich.diff_tree as D
    if "init" not in _st:
        _st["init"] = True
        if D._merge_entries is not D._merge_entries_py:
            _st["rust"] = (D._merge_entries, D._is_tree, D._count_blocks)


def run_pairs(case):
    from dulwich.object_store import MemoryObjectStore
    from dulwich.objects import Blob
    init()
    rng = random.Random(case["seed"])
    store = MemoryObjectStore()
    blobs = []
    for i in range(5):
        b = Blob.from_string(b"".join(b"line %d %d\n" % (i, j) for j in range(20)) if i else b"")
        store.add_object(b)
        blobs.append(b.id)
    for k in range(3):
        # near copies of blob 1 (one line of twenty differs): candidates for content-based rename detection
        b = Blob.from_string(b"".join((b"line 1 %d\n" % j) if j != k else (b"edited %d\n" % k) for j in range(20)))
        store.add_object(b)
        blobs.append(b.id)
    viol, stats, nt = [], {}, set()
    pairs = []
    if "exh" in case:
        alls = _st.get("exh_listings")
        if alls is None:
            alls = []
            opts = [(p, m) for p in SMALL_PATHS for m in (0o100644, 0o100755, 0o120000, 0o160000)]
            for k in range(0, case["exh_k"] + 1):
                for combo in itertools.combinations(SMALL_PATHS, k):
                    if not valid_listing(combo):
                        continue
                    for modes in itertools.product((0o100644, 0o100755, 0o120000, 0o160000), repeat=k):
                        alls.append({p: (m, blobs[1 + (i % 2)]) for i, (p, m) in enumerate(zip(combo, modes))})
            _st["exh_listings"] = alls
        lo, hi = case["exh"]
        for i in range(lo, min(hi, len(alls))):
            for j in rng.sample(range(len(alls)), case.get("partners", 6)):
                pairs.append((alls[i], alls[j]))
        stats["exh_listings"] = min(hi, len(alls)) - lo
    else:
        for _ in range(case["n"]):
            La = gen_listing(rng, blobs)
            Lb = mutate_listing(rng, La, blobs) if rng.random() < 0.7 else gen_listing(rng, blobs)
            pairs.append((La, Lb))
    for La, Lb in pairs:
        for impl in (["rust", "python"] if "rust" in _st else ["python"]):
            set_impl(impl == "python")
            nv = len(viol)
            check_pair(store, blobs, La, Lb, viol, stats, rng, impl)
            for v in viol[nv:]:
                v.setdefault("La", repr(La)[:300])
                v.setdefault("Lb", repr(Lb)[:300])
        nt.add("pair:%s:%d:%d" % (feature(La, Lb), len(La), len(Lb)))
    set_impl(False)
    seen, out = set(), []
    for v in viol:
        if v["sig"] not in seen:
            seen.add(v["sig"])
            out.append(v)
    return {"viol": out, "stats": stats, "nontrivial": sorted(nt), "evaluations": len(pairs)}


def run_git(case):
    """ids vs git write-tree, raw diffs vs git diff-tree, exact renames vs -M100%."""
    from dulwich.diff_tree import RenameDetector, tree_changes
    from dulwich.index import commit_tree
    from dulwich.repo import Repo
    init()
    if "scratch" not in _st:
        _st["scratch"] = core.Scratch("c12-")
    rng = random.Random(case["seed"])
    d = _st["scratch"].sub("g%d" % rng.randrange(10 ** 9))
    viol, stats, nt = [], {}, set()
    try:
        core.git(["init", "-q", d])
        blobs = []
        for i in range(5):
            r = core.git(["hash-object", "-w", "--stdin"], cwd=d, input=b"".join(b"line %d %d\n" % (i, j) for j in range(20)) if i else b"")
            blobs.append(r.stdout.strip())
        # a commit object to serve as gitlink target is not needed: gitlinks may point anywhere
        repo = Repo(d)
        store = repo.object_store
        trees = []
        for _ in range(case["n"]):
            La = gen_listing(rng, blobs)
            Lb = mutate_listing(rng, La, blobs)
            ids = []
            for L in (La, Lb):
                t = commit_tree(store, [(p, v[1], v[0]) for p, v in L.items()])
                idx = os.path.join(d, ".git", "tmp-index")
                if os.path.exists(idx):
                    os.unlink(idx)
                inp = b"".join(b"%o %s\t%s\0" % (m, s, p) for p, (m, s) in L.items())
                core.git(["update-index", "-z", "--index-info"], cwd=d, input=inp, env={"GIT_INDEX_FILE": idx})
                g = core.git(["write-tree", "--missing-ok"], cwd=d, env={"GIT_INDEX_FILE": idx}).stdout.strip()
                stats["git_write_tree"] = stats.get("git_write_tree", 0) + 1
                if g != t:
                    viol.append({"sig": "C12/git/tree-id-differs-from-git-write-tree", "L": repr(L)[:300]})
                ids.append(t)
            ta, tb = ids
            r = core.git(["diff-tree", "-r", "--raw", "-z", "--no-renames", "--no-abbrev", ta.decode(), tb.decode()], cwd=d)
            toks = r.stdout.split(b"\0")
            gd = {}
            i = 0
            while i + 1 < len(toks):
                meta = toks[i].split(b" ")
                gd[toks[i + 1]] = (meta[0].lstrip(b":"), meta[1], meta[2], meta[3], meta[4])
                i += 2
            stats["git_diff_tree"] = stats.get("git_diff_tree", 0) + 1
            dd = {}
            for c in tree_changes(store, ta, tb, change_type_same=True):
                p = (c.new or c.old).path
                om = b"%06o" % c.old.mode if c.old and c.old.mode else b"000000"
                nm_ = b"%06o" % c.new.mode if c.new and c.new.mode else b"000000"
                osha = c.old.sha if c.old and c.old.sha else b"0" * 40
                nsha = c.new.sha if c.new and c.new.sha else b"0" * 40
                dd[p] = (om, nm_, osha, nsha)
            gdd = {p: v[:4] for p, v in gd.items()}
            if dd != gdd:
                viol.append({"sig": "C12/git/raw-diff-differs-from-git-diff-tree/%s" % feature(La, Lb), "La": repr(La)[:300], "Lb": repr(Lb)[:300],
                             "dulwich_only": repr({k: v for k, v in dd.items() if gdd.get(k) != v})[:300],
                             "git_only": repr({k: v for k, v in gdd.items() if dd.get(k) != v})[:300]})
            # exact renames vs git -M100%
            r = core.git(["diff-tree", "-r", "--raw", "-z", "-M100%", "--no-abbrev", ta.decode(), tb.decode()], cwd=d)
            toks = r.stdout.split(b"\0")
            gren = set()
            i = 0
            while i < len(toks) - 1:
                meta = toks[i].split(b" ")
                if meta[-1][:1] in (b"R", b"C"):
                    gren.add((toks[i + 1], toks[i + 2]))
                    i += 3
                else:
                    i += 2
            dren = set((c.old.path, c.new.path) for c in tree_changes(store, ta, tb, rename_detector=RenameDetector(store, rename_threshold=100))
                       if c.type == "rename")
            stats["rename_compares"] = stats.get("rename_compares", 0) + 1
            if gren and dren and len(gren) != len(dren):
                stats["rename_count_differs_from_git"] = stats.get("rename_count_differs_from_git", 0) + 1
            nt.add("git:%s" % feature(La, Lb))
        repo.close()
    finally:
        shutil.rmtree(d, ignore_errors=True)
    seen, out = set(), []
    for v in viol:
        if v["sig"] not in seen:
            seen.add(v["sig"])
            out.append(v)
    return {"viol": out, "stats": stats, "nontrivial": sorted(nt), "evaluations": case["n"]}


def worker_exit():
    if "scratch" in _st:
        _st["scratch"].cleanup()


def run_case(case):
    return {"pairs": run_pairs, "git": run_git}[case["kind"]](case)


def main(ctx):
    cases = []
    K = 3 if ctx.thorough else 2
    # count listings for sharding (same enumeration as the worker)
    n_list = 0
    for k in range(0, K + 1):
        for combo in itertools.combinations(SMALL_PATHS, k):
            if valid_listing(combo):
                n_list += 4 ** k
    step = max(1, n_list // 64)
    for lo in range(0, n_list, step):
        cases.append({"kind": "pairs", "seed": "%d/x/%d" % (ctx.seed, lo), "exh": [lo, lo + step], "exh_k": K, "partners": 8 if ctx.thorough else 12})
    for i in range(ctx.budget(120, 1500)):
        cases.append({"kind": "pairs", "seed": "%d/p/%d" % (ctx.seed, i), "n": 30})
    for i in range(ctx.budget(40, 400)):
        cases.append({"kind": "git", "seed": "%d/g/%d" % (ctx.seed, i), "n": 12})
    ctx.rule = ("listing pairs over the conflict-prone path alphabet %s x 4 modes: every listing of <=%d entries over 9 names x 4 modes is used as "
                "first element (exhaustive in the first listing, sampled partners); random larger pairs with mode-only/type-only changes, "
                "file<->directory swaps, emptied directories. non-trivial = distinct (change-feature set, sizes)." % (
                    [p.decode("latin1") for p in PATHS], K))
    ctx.explanation = "first listings enumerated exhaustively (%d), partners sampled; git comparison on random pairs" % n_list
    ctx.assumptions = ["with RenameDetector only soundness invariants are demanded (plus counted agreement with git -M100%)",
                       "flat-listing reference; git 2.39.5 write-tree/diff-tree"]

    def on_result(case, out):
        if out["status"] != "ok":
            if out["status"] == "timeout":
                ctx.inconc("timeout " + case["kind"])
            else:
                ctx.violation("C12/%s/harness-%s/%s" % (case["kind"], out["status"], out.get("exc")), case, out)
            return
        res = out["result"]
        ctx.merge(res)
        for v in res.get("viol", []):
            ctx.violation(v["sig"], case, v)
        ctx.sample(case, case["kind"])

    pool.pmap("vt.checks.c12", cases, timeout=900, on_result=on_result, ext_table=getattr(ctx, "ext_table", None))
    if ctx.stats["exh_listings"] < n_list:
        return "exhaustive listing enumeration incomplete (%d of %d)" % (ctx.stats["exh_listings"], n_list)
    if not ctx.stats["git_diff_tree"]:
        return "git comparison never ran"
    return None
