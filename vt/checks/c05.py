"""C05 — fetch, clone and push transfer a complete, byte-identical object closure.

For each transfer the harness records both repositories' objects and refs before and after (through C git,
not dulwich) and, where the transport allows, the *pack bytes on the wire* (pack_data callback of dulwich
clients; decoded by vt.ref.packfmt).  Oracles:
  O1 completeness  closure (git rev-list --objects) of every transferred ref is present on the receiver;
                   `git fsck --full --strict` (hashes + connectivity) passes there
  O2 byte identity every closure object has identical (type, bytes) on both sides (cat-file)
  O3 minimality    ids in the wire pack are within closure(wants) plus tags auto-followed, and within
                   closure(advertised refs); objects the receiver already has are counted, not judged
  O4 the refs reported by the API equal the sender's
Transports: LocalGitClient (fetch / fetch_pack / send_pack), dulwich TCPGitServer <- dulwich TCPGitClient and
<- C git (protocol v0 and v2, --depth, --no-tags), dulwich SubprocessGitClient -> C git upload-pack /
receive-pack, dulwich WSGI smart HTTP <- C git, depth-limited fetch followed by deepening.
"""
import io
import os
import random
import shutil
import threading

from vt import core, pool
from vt.ref import packfmt

LEVEL = "exploration"
_st = {}


# ------------------------------------------------------------------------------ history generator (git fast-import)
def gen_history(d, rng, n):
    """Random DAG: merges, criss-cross, several roots, shared blobs/subtrees, annotated tags of commits/trees/blobs/tags, gitlinks."""
    core.git(["init", "-q", "--bare", d])
    core.git(["config", "gc.auto", "0"], cwd=d)
    paths = [b"a.txt", b"b.txt", b"dir/c.txt", b"dir/sub/d.txt", b"dir/e.txt", b"z"]
    pool_ = [b"content %d\n" % i * rng.choice([1, 3, 40]) for i in range(8)] + [b""]
    s = []
    feats = set()
    commits = []
    for i in range(n):
        mark = i + 1
        br = b"refs/heads/br%d" % rng.randrange(4)
        s.append(b"commit " + br + b"\nmark :%d\ncommitter C <c@d> %d +0000\ndata %d\n%s\n" % (mark, 1700000000 + i * 60, len(b"c%d" % i), b"c%d" % i))
        r = rng.random()
        if commits and r < 0.85:
            p = rng.choice(commits[-6:])
            s.append(b"from :%d\n" % p)
            if len(commits) > 2 and rng.random() < 0.3:
                ms = set()
                for _ in range(rng.choice([1, 1, 2])):
                    q = rng.choice(commits)
                    if q != p and q not in ms:
                        ms.add(q)
                        s.append(b"merge :%d\n" % q)
                if ms:
                    feats.add("merge" if len(ms) == 1 else "octopus")
        else:
            if commits:
                feats.add("multi-root")
            s.append(b"deleteall\n")
        for _ in range(rng.choice([1, 1, 2, 3])):
            pth = rng.choice(paths)
            if rng.random() < 0.1:
                s.append(b"D " + pth + b"\n")
            else:
                body = rng.choice(pool_)
                mode = rng.choice([b"644", b"644", b"755"])
                s.append(b"M " + mode + b" inline " + pth + b"\ndata %d\n%s\n" % (len(body), body))
        if rng.random() < 0.08:
            s.append(b"M 160000 %040x sub\n" % rng.getrandbits(160))
            feats.add("gitlink")
        if commits and rng.random() < 0.12:
            # gitlink to a commit of this very repository (a superproject carrying itself): the id is both a
            # gitlink target (not part of a closure) and a commit that a ref may want
            s.append(b"M 160000 :%d selfsub\n" % rng.choice(commits[-5:]))
            feats.add("gitlink-to-own-commit")
        if rng.random() < 0.06:
            s.append(b"M 120000 inline lnk\ndata 6\ntarget\n")
            feats.add("symlink")
        commits.append(mark)
    core.git(["fast-import", "--quiet", "--export-marks=" + os.path.join(d, "marks")], cwd=d, input=b"".join(s))
    ids = {}
    for line in open(os.path.join(d, "marks")):
        m, sha = line.split()
        ids[int(m[1:])] = sha.encode()
    # tags
    ntags = rng.choice([0, 1, 2, 4])
    for t in range(ntags):
        kind = rng.choice(["commit", "commit", "tree", "blob", "tag"])
        c = ids[rng.choice(commits)]
        if kind == "commit":
            tgt = c
        elif kind == "tree":
            tgt = core.git(["rev-parse", c.decode() + "^{tree}"], cwd=d).stdout.strip()
        elif kind == "blob":
            tgt = core.git(["hash-object", "-w", "--stdin"], cwd=d, input=b"tagged blob %d\n" % t).stdout.strip()
        else:
            ex = core.git(["for-each-ref", "--format=%(objectname) %(objecttype)", "refs/tags"], cwd=d).stdout.splitlines()
            ex = [l.split()[0] for l in ex if l.split()[1] == b"tag"]
            if not ex:
                tgt = c
                kind = "commit"
            else:
                tgt = rng.choice(ex)
        core.git(["tag", "-a", "-m", "tag %d" % t, "t%d" % t, tgt.decode()], cwd=d, check=False)
        feats.add("tag-of-" + kind)
    if rng.random() < 0.3:
        core.git(["tag", "light", ids[rng.choice(commits)].decode()], cwd=d, check=False)
    if rng.random() < 0.5:
        core.git(["repack", "-adq"], cwd=d)
        feats.add("sender-packed")
    if rng.random() < 0.3:
        core.git(["pack-refs", "--all"], cwd=d)
    # HEAD must point at an existing branch
    brs = core.git(["for-each-ref", "--format=%(refname)", "refs/heads"], cwd=d).stdout.split()
    if brs:
        core.git(["symbolic-ref", "HEAD", brs[0].decode()], cwd=d)
    return ids, commits, feats


def add_grafts(d, ids, commits, rng):
    """graft points on a dulwich *sender* (info/grafts hiding real parents); written just before the transfer and removed right after it,
    so that only the code under observation ever sees them (C git peers honour grafts themselves)."""
    lines = []
    for m in rng.sample(commits[1:], min(2, len(commits) - 1)):
        c = ids[m]
        fake = [ids[x] for x in rng.sample(commits, rng.choice([0, 1])) if ids[x] != c]
        lines.append(b" ".join([c] + fake))
    os.makedirs(os.path.join(d, "info"), exist_ok=True)
    with open(os.path.join(d, "info", "grafts"), "wb") as f:
        f.write(b"\n".join(lines) + b"\n")


def drop_grafts(d):
    try:
        os.unlink(os.path.join(d, "info", "grafts"))
    except OSError:
        pass


def refs_of(d):
    out = {}
    for line in core.git(["for-each-ref", "--format=%(refname) %(objectname)"], cwd=d).stdout.splitlines():
        n, v = line.split()
        out[n] = v
    return out


def closure(d, tips, excludes=(), shallow=False):
    """ids reachable from tips (independent of dulwich)."""
    if not tips:
        return set()
    inp = b"".join(t + b"\n" for t in tips) + b"".join(b"^" + e + b"\n" for e in excludes)
    r = core.git(["rev-list", "--objects", "--stdin"], cwd=d, input=inp, check=False)
    if r.returncode != 0:
        return None
    out = set(l.split()[0] for l in r.stdout.splitlines())
    # tips that are tags/trees/blobs are included by rev-list --objects; tag objects themselves too
    return out


def all_objects(d):
    return {l.split()[0]: l.split()[1] for l in core.git(["cat-file", "--batch-all-objects", "--batch-check", "--unordered"], cwd=d).stdout.splitlines()}


def object_bytes(d, ids):
    ids = sorted(ids)
    out = core.git(["cat-file", "--batch"], cwd=d, input=b"\n".join(ids) + b"\n").stdout
    res = {}
    pos = 0
    for i in ids:
        nl = out.index(b"\n", pos)
        hdr = out[pos:nl].split()
        if len(hdr) != 3:
            res[i] = None
            pos = nl + 1
            continue
        res[i] = (hdr[1], out[nl + 1:nl + 1 + int(hdr[2])])
        pos = nl + 1 + int(hdr[2]) + 1
    return res


def make_receiver(rd, sd, rng, ids, commits, mode):
    """receiver pre-state = any ancestor-closed sub-history (complete), built with C git."""
    core.git(["init", "-q", "--bare", rd])
    core.git(["config", "gc.auto", "0"], cwd=rd)
    if mode == "empty":
        return
    k = rng.choice([1, 1, 2, 3])
    haves = [ids[c] for c in rng.sample(commits, min(k, len(commits)))]
    for j, h in enumerate(haves):
        core.git(["update-ref", "refs/pre/%d" % j, h.decode()], cwd=sd)
    core.git(["fetch", "-q", "--no-tags", sd, "refs/pre/*:refs/heads/pre/*"], cwd=rd)
    for j in range(len(haves)):
        core.git(["update-ref", "-d", "refs/pre/%d" % j], cwd=sd)
    if rng.random() < 0.4:
        core.git(["repack", "-adq"], cwd=rd)


def judge_receiver(tag, sd, rd, got_refs, viol, stats, shallow=False, wants_tips=None):
    """O1/O2 for every ref value the receiver now holds (got_refs: name -> id to check)."""
    tips = sorted(set(v for v in got_refs.values() if v))
    have = all_objects(rd)
    if shallow:
        fs = core.git(["fsck", "--full", "--strict", "--no-dangling", "--no-progress"], cwd=rd, check=False)
        if fs.returncode != 0:
            viol.append({"sig": "C05/%s/receiver-fails-git-fsck" % tag, "out": (fs.stderr + fs.stdout).decode(errors="replace")[-300:]})
        return
    cl = closure(sd, tips)
    if cl is None:
        return
    missing = [i for i in cl if i not in have]
    stats["closure_objects_checked"] = stats.get("closure_objects_checked", 0) + len(cl)
    if missing:
        types = sorted(set(all_objects(sd).get(m, b"?").decode() for m in missing))
        viol.append({"sig": "C05/%s/receiver-lacks-objects-of-transferred-closure/%s" % (tag, "+".join(types)), "n_missing": len(missing), "of": len(cl)})
        return
    a = object_bytes(sd, cl)
    b = object_bytes(rd, cl)
    if a != b:
        viol.append({"sig": "C05/%s/object-bytes-differ-between-sender-and-receiver" % tag})
    fs = core.git(["fsck", "--full", "--strict", "--no-dangling", "--no-progress"], cwd=rd, check=False)
    if fs.returncode != 0:
        viol.append({"sig": "C05/%s/receiver-fails-git-fsck" % tag, "out": (fs.stderr + fs.stdout).decode(errors="replace")[-300:]})


def judge_wire(tag, sd, wire, wants, haves_objs, advertised, viol, stats, include_tag=True):
    """O3 minimality on the wire pack."""
    if not wire:
        return
    try:
        pi = packfmt.parse_pack(wire)
        ext = {}
        # thin packs: external bases come from the sender
        need = [e.base_ref for e in pi.entries if e.type == packfmt.REF_DELTA]
        if need:
            ob = object_bytes(sd, [n.hex().encode() for n in need])
            for n in need:
                v = ob.get(n.hex().encode())
                if v:
                    ext[n] = v
        objs, _ = packfmt.resolve(pi, ext)
    except Exception as e:
        viol.append({"sig": "C05/%s/wire-pack-undecodable-%s" % (tag, type(e).__name__), "err": str(e)[:150]})
        return
    sent = set(k.hex().encode() for k in objs)
    stats["wire_packs"] = stats.get("wire_packs", 0) + 1
    stats["wire_objects"] = stats.get("wire_objects", 0) + len(sent)
    adv = closure(sd, sorted(set(advertised.values()))) or set()
    outside_adv = sent - adv
    if outside_adv:
        viol.append({"sig": "C05/%s/sent-object-unreachable-from-advertised-refs" % tag, "n": len(outside_adv)})
    want_cl = closure(sd, sorted(set(wants))) or set()
    # tags auto-followed: annotated tags whose (peeled) target is sent or already had, with their chain links
    allowed = set(want_cl)
    if include_tag:
        for name, v in advertised.items():
            if name.startswith(b"refs/tags/"):
                tcl = closure(sd, [v]) or set()
                peeled = core.git(["rev-parse", v.decode() + "^{}"], cwd=sd, check=False).stdout.strip()
                if peeled in want_cl or peeled in haves_objs:
                    # only the tag chain objects (tag objects), not new history
                    for o in tcl:
                        if all_objects_cache(sd).get(o) == b"tag":
                            allowed.add(o)
    extra = sent - allowed
    if extra:
        types = sorted(set(all_objects_cache(sd).get(m, b"?").decode() for m in extra))
        viol.append({"sig": "C05/%s/sent-object-outside-closure-of-wants/%s" % (tag, "+".join(types)), "n": len(extra), "sent": len(sent)})
    resent = sent & haves_objs
    stats["resent_objects_receiver_already_had"] = stats.get("resent_objects_receiver_already_had", 0) + len(resent)


def all_objects_cache(d):
    c = _st.setdefault("aoc", {})
    if d not in c:
        if len(c) > 4:
            c.clear()
        c[d] = all_objects(d)
    return c[d]


# ------------------------------------------------------------------------------ transports
class TCPServer:
    def __init__(self, path):
        from dulwich.repo import Repo
        from dulwich.server import DictBackend, TCPGitServer
        self.repo = Repo(path)
        errors = self.errors = []

        class Srv(TCPGitServer):
            def handle_error(self, request, client_address):
                import traceback
                errors.append(traceback.format_exc()[-900:])
        self.server = Srv(DictBackend({b"/": self.repo}), b"127.0.0.1", 0)
        self.port = self.server.server_address[1]
        self.th = threading.Thread(target=self.server.serve_forever, kwargs={"poll_interval": 0.05}, daemon=True)
        self.th.start()

    def close(self):
        self.server.shutdown()
        self.server.server_close()
        self.th.join(5)
        self.repo.close()


class HTTPServer:
    def __init__(self, path):
        from wsgiref.simple_server import WSGIRequestHandler, WSGIServer, make_server
        from dulwich.repo import Repo
        from dulwich.server import DictBackend
        from dulwich.web import make_wsgi_chain, WSGIRequestHandlerLogger, WSGIServerLogger
        self.repo = Repo(path)
        app = make_wsgi_chain(DictBackend({"/": self.repo}))

        class Quiet(WSGIRequestHandler):
            def log_message(self, *a):
                pass
        self.server = make_server("127.0.0.1", 0, app, handler_class=Quiet)
        self.port = self.server.server_address[1]
        self.th = threading.Thread(target=self.server.serve_forever, kwargs={"poll_interval": 0.05}, daemon=True)
        self.th.start()

    def close(self):
        self.server.shutdown()
        self.server.server_close()
        self.th.join(5)
        self.repo.close()


def run_fetch(case):
    from dulwich.client import LocalGitClient, SubprocessGitClient, TCPGitClient
    from dulwich.repo import Repo
    if "scratch" not in _st:
        _st["scratch"] = core.Scratch("c05-")
    rng = random.Random(case["seed"])
    base = _st["scratch"].sub("f%d" % rng.randrange(10 ** 9))
    sd, rd = os.path.join(base, "S.git"), os.path.join(base, "R.git")
    viol, stats, nt = [], {}, set()
    _st.pop("aoc", None)
    try:
        ids, commits, feats = gen_history(sd, rng, case.get("n", 18))
        rmode = rng.choice(["empty", "partial", "partial", "partial"])
        if case["transport"] == "depth-branches":
            rmode = "empty"      # a receiver that is shallow only through these fetches
        make_receiver(rd, sd, rng, ids, commits, rmode)
        srefs = refs_of(sd)
        pre_have = set(all_objects(rd))
        names = sorted(srefs)
        wk = rng.choice(["all", "some", "one"])
        if wk == "all" or len(names) <= 1:
            want_names = names
        elif wk == "some":
            want_names = rng.sample(names, max(1, len(names) // 2))
        else:
            want_names = [rng.choice(names)]
        wants = [srefs[n] for n in want_names]
        transport = case["transport"]
        tag = transport
        depth = None
        wire = []
        got = {}
        srv = None
        if transport != "subprocess-upload-pack" and len(commits) > 3 and rng.random() < 0.15:
            add_grafts(sd, ids, commits, rng)
            feats.add("sender-has-grafts")
        try:
            if transport in ("local", "local-fetch_pack"):
                target = Repo(rd)
                try:
                    def dw(refs, depth=None):
                        return [w for w in wants if w not in target.object_store]
                    if transport == "local":
                        pdir = os.path.join(target.object_store.path, "pack")
                        packs_before = set(os.listdir(pdir)) if os.path.isdir(pdir) else set()
                        res = LocalGitClient().fetch(sd, target, determine_wants=dw)
                        newidx = [f for f in (os.listdir(pdir) if os.path.isdir(pdir) else []) if f.endswith(".idx") and f not in packs_before]
                        if newidx and rng.random() < 0.4:
                            # the state a receiver killed between "pack renamed into place" and "index written" leaves behind, then the same
                            # fetch again (what a user does after a crash): it must succeed and deliver everything
                            target.close()
                            for f in newidx:
                                os.unlink(os.path.join(pdir, f))
                            target = Repo(rd)
                            res = LocalGitClient().fetch(sd, target, determine_wants=dw)
                            feats.add("retried-after-crash-between-pack-and-index")
                            stats["retries_after_simulated_crash"] = 1
                    else:
                        buf = io.BytesIO()
                        res = LocalGitClient().fetch_pack(sd, dw, target.get_graph_walker(), buf.write)
                        wire.append(buf.getvalue())
                        if buf.getvalue():
                            target.object_store.add_thin_pack(io.BytesIO(buf.getvalue()).read, None)
                    rrefs = {k: v for k, v in res.refs.items() if v}
                finally:
                    target.close()
                if {k: v for k, v in rrefs.items() if k != b"HEAD"} != srefs:
                    viol.append({"sig": "C05/%s/reported-refs-differ-from-senders" % tag})
                got = {n: srefs[n] for n in want_names}
            elif transport in ("tcp-dulwich", "tcp-dulwich-fetch_pack"):
                srv = TCPServer(sd)
                target = Repo(rd)
                try:
                    cl = TCPGitClient("127.0.0.1", port=srv.port)  # the dulwich server refuses clients without thin-pack (a refused configuration, not a transfer)
                    def dw(refs, depth=None):
                        return [w for w in wants if w not in target.object_store]
                    if transport == "tcp-dulwich":
                        res = cl.fetch(b"/", target, determine_wants=dw)
                    else:
                        buf = io.BytesIO()
                        res = cl.fetch_pack(b"/", dw, target.get_graph_walker(), buf.write)
                        wire.append(buf.getvalue())
                        if buf.getvalue():
                            target.object_store.add_thin_pack(io.BytesIO(buf.getvalue()).read, None)
                    rrefs = {k: v for k, v in res.refs.items() if v and not k.endswith(b"^{}")}
                finally:
                    target.close()
                if {k: v for k, v in rrefs.items() if k != b"HEAD"} != srefs:
                    viol.append({"sig": "C05/%s/reported-refs-differ-from-senders" % tag})
                got = {n: srefs[n] for n in want_names}
            elif transport in ("tcp-cgit-v0", "tcp-cgit-v2", "http-cgit"):
                srv = TCPServer(sd) if transport.startswith("tcp") else HTTPServer(sd)
                url = ("git://127.0.0.1:%d/" % srv.port) if transport.startswith("tcp") else ("http://127.0.0.1:%d/" % srv.port)
                tagsopt = rng.choice(["--no-tags", "--tags", None])
                specs = ["+%s:refs/got/%d" % (n.decode(), i) for i, n in enumerate(want_names)]
                args = ["fetch", "-q"] + ([tagsopt] if tagsopt else []) + [url] + specs
                r = core.git(args, cwd=rd, check=False, extra_cfg=["protocol.version=%s" % ("2" if transport.endswith("v2") else "0")], timeout=120)
                tag += "/" + (tagsopt or "auto-tags").strip("-")
                if r.returncode != 0:
                    viol.append({"sig": "C05/%s/git-fetch-from-dulwich-server-fails" % tag, "err": r.stderr.decode(errors="replace")[-300:]})
                    got = {}
                else:
                    got = refs_of(rd)
                    for i, n in enumerate(want_names):
                        if got.get(b"refs/got/%d" % i) != srefs[n]:
                            viol.append({"sig": "C05/%s/fetched-ref-value-differs" % tag})
                    got = {k: v for k, v in got.items() if not k.startswith(b"refs/heads/pre/")}
            elif transport == "subprocess-upload-pack":
                target = Repo(rd)
                try:
                    def dw(refs, depth=None):
                        return [w for w in wants if w not in target.object_store]
                    res = SubprocessGitClient().fetch(sd, target, determine_wants=dw)
                    rrefs = {k: v for k, v in res.refs.items() if v and not k.endswith(b"^{}")}
                finally:
                    target.close()
                if {k: v for k, v in rrefs.items() if k != b"HEAD"} != srefs:
                    viol.append({"sig": "C05/%s/reported-refs-differ-from-senders" % tag})
                got = {n: srefs[n] for n in want_names}
            elif transport == "depth":
                srv = TCPServer(sd)
                target = Repo(rd)
                depth = rng.choice([1, 2, 3])
                try:
                    cl = TCPGitClient("127.0.0.1", port=srv.port)
                    res = cl.fetch(b"/", target, depth=depth)
                    target.update_shallow(res.new_shallow, res.new_unshallow)
                    for n, v in res.refs.items():
                        if n.startswith(b"refs/heads/") and v:
                            target.refs[b"refs/remotes/o/" + n[11:]] = v
                    # deepen
                    res2 = cl.fetch(b"/", target, depth=depth + rng.choice([1, 2, 50]))
                    target.update_shallow(res2.new_shallow, res2.new_unshallow)
                finally:
                    target.close()
                got = refs_of(rd)
                tag = "depth"
            elif transport == "depth-branches":
                # shallow fetches of different branches one after another (no deepening of the first): the second depth window may reach
                # below the boundary the first one left, into history the receiver never got
                from dulwich.client import HttpGitClient
                via = rng.choice(["tcp", "http"])
                srv = TCPServer(sd) if via == "tcp" else HTTPServer(sd)
                heads = sorted(n for n in srefs if n.startswith(b"refs/heads/"))
                target = Repo(rd)
                try:
                    cl = TCPGitClient("127.0.0.1", port=srv.port) if via == "tcp" else HttpGitClient("http://127.0.0.1:%d/" % srv.port)
                    order = rng.sample(heads, len(heads))
                    for k_, n in enumerate(order[:3]):
                        # later fetches sometimes ask for a window that reaches the roots (no new boundary, nothing unshallowed): the
                        # server must still not count history below the receiver's existing boundary as present
                        dpt = rng.choice([1, 2, 2, 3] + ([50, 50] if k_ else []))

                        def only(refs, depth=None, n=n):
                            return [refs[n]] if n in refs else []
                        res = cl.fetch(b"/", target, determine_wants=only, depth=dpt)
                        target.update_shallow(res.new_shallow, res.new_unshallow)
                        if res.refs.get(n):
                            # as a local branch: the default graph walker offers refs/heads/* as haves on the next fetch
                            target.refs[(b"refs/heads/" if rng.random() < 0.7 else b"refs/remotes/o/") + n[11:]] = res.refs[n]
                finally:
                    target.close()
                got = refs_of(rd)
                tag = "depth-branches/" + via
        except Exception as e:
            import traceback
            viol.append({"sig": "C05/%s/transfer-raises-%s" % (tag, type(e).__name__), "msg": str(e)[:200], "tb": traceback.format_exc()[-500:],
                         "server_errors": getattr(srv, "errors", None)})
            got = {}
        finally:
            if srv:
                srv.close()
            drop_grafts(sd)
        stats["transfers"] = 1
        if "sender-has-grafts" in feats:
            stats["transfers_from_a_sender_with_grafts"] = 1
        if got:
            judge_receiver(tag, sd, rd, got, viol, stats, shallow=transport.startswith("depth"))
        for w in wire:
            judge_wire(tag, sd, w, wants, pre_have, srefs, viol, stats)
        ft = "+".join(sorted(f for f in feats if f.startswith("tag-of") or f in ("gitlink", "octopus", "multi-root")))[:60]
        for v in viol:
            v["features"] = sorted(feats)
            v["receiver"] = rmode
            v["wants"] = wk
        nt.add("%s:%s:%s:%s" % (transport, rmode, wk, ft))
    finally:
        shutil.rmtree(base, ignore_errors=True)
    return {"viol": dedupe(viol), "stats": stats, "nontrivial": sorted(nt), "evaluations": 1}


def run_scripted_upload_pack(case):
    """A scripted upload-pack client (the whole conversation is written up front, as a stateless client would) against dulwich's
    UploadPackHandler for every optional capability combination: multi_ack mode {none, multi_ack, multi_ack_detailed} x no-done x
    include-tag x no-progress, with haves the server knows, haves it does not know, several have batches. The reply is decoded with the
    independent pkt-line/side-band decoder and the independent pack reader."""
    from dulwich.protocol import Protocol, pkt_line
    from dulwich.repo import Repo
    from dulwich.server import DictBackend, UploadPackHandler
    from vt.checks import c19
    if "scratch" not in _st:
        _st["scratch"] = core.Scratch("c05-")
    rng = random.Random(case["seed"])
    base = _st["scratch"].sub("u%d" % rng.randrange(10 ** 9))
    sd = os.path.join(base, "S.git")
    viol, stats = [], {}
    _st.pop("aoc", None)
    try:
        ids, commits, feats = gen_history(sd, rng, case.get("n", 14))
        srefs = refs_of(sd)
        if not srefs:
            return {"viol": [], "stats": {}, "evaluations": 0, "nontrivial": []}
        types = all_objects_cache(sd)
        names = sorted(srefs)
        want_names = rng.sample(names, rng.randint(1, min(3, len(names))))
        wants = sorted(set(srefs[n] for n in want_names))
        all_commits = sorted(o for o, t in types.items() if t == b"commit")
        want_cl = closure(sd, wants) or set()
        cand = [c for c in all_commits if c in want_cl]
        known_haves = rng.sample(cand, min(len(cand), rng.choice([0, 0, 1, 2, 4]))) if cand else []
        # never claim to have a wanted tip's whole closure away: keep at least something to send sometimes
        unknown_haves = [b"%040x" % rng.getrandbits(160) for _ in range(rng.choice([0, 0, 1, 3]))]
        haves = known_haves + unknown_haves
        rng.shuffle(haves)
        mode = case["mode"]
        caps = [b"side-band-64k", b"thin-pack", b"ofs-delta"]
        if mode != "none":
            caps.append(mode.encode())
        if case["no_done"] and mode == "multi_ack_detailed":
            caps.append(b"no-done")
        if case["include_tag"]:
            caps.append(b"include-tag")
        if case["no_progress"]:
            caps.append(b"no-progress")
        rng.shuffle(caps)
        req = [pkt_line(b"want " + wants[0] + b" " + b" ".join(caps) + b"\n")]
        for w in wants[1:]:
            req.append(pkt_line(b"want " + w + b"\n"))
        req.append(pkt_line(None))
        batch = rng.choice([1, 2, 32])
        for i in range(0, len(haves), batch):
            for h in haves[i:i + batch]:
                req.append(pkt_line(b"have " + h + b"\n"))
            if i + batch < len(haves):
                req.append(pkt_line(None))
        req.append(pkt_line(b"done\n"))
        out = io.BytesIO()
        r = Repo(sd)
        tag = "scripted/%s%s%s" % (mode, "+no-done" if b"no-done" in caps else "", "+include-tag" if case["include_tag"] else "")
        try:
            h = UploadPackHandler(DictBackend({b"/": r}), [b"/"], Protocol(io.BytesIO(b"".join(req)).read, out.write))
            try:
                h.handle()
            except (MemoryError, RecursionError):
                raise
            except Exception as e:
                viol.append({"sig": "C05/%s/upload-pack-handler-raises-%s" % (tag, type(e).__name__), "msg": str(e)[:200], "haves": [len(known_haves), len(unknown_haves)]})
                return {"viol": dedupe(viol), "stats": stats, "evaluations": 1, "nontrivial": [tag]}
        finally:
            r.close()
        frames, end = c19.ref_decode(out.getvalue())
        if end != "eof":
            viol.append({"sig": "C05/%s/reply-is-not-a-pkt-line-stream" % tag})
            return {"viol": dedupe(viol), "stats": stats, "evaluations": 1, "nontrivial": [tag]}
        stats["scripted_conversations"] = 1
        # advertisement up to the first flush
        try:
            k = frames.index(None)
        except ValueError:
            viol.append({"sig": "C05/%s/advertisement-not-terminated" % tag})
            return {"viol": dedupe(viol), "stats": stats, "evaluations": 1, "nontrivial": [tag]}
        adv = {}
        for f in frames[:k]:
            line = f.split(b"\0")[0].rstrip(b"\n")
            sha, _, name = line.partition(b" ")
            if not name.endswith(b"^{}"):
                adv[name] = sha
        rest = frames[k + 1:]
        acks, pack, progress, errors = [], bytearray(), 0, []
        in_band = False
        for f in rest:
            if f is None or f == "D":
                continue
            if not in_band and (f.startswith(b"ACK ") or f.startswith(b"NAK")):
                acks.append(f.rstrip(b"\n"))
                continue
            in_band = True
            ch, body = f[0], f[1:]
            if ch == 1:
                pack += body
            elif ch == 2:
                progress += 1
            elif ch == 3:
                errors.append(bytes(body[:100]))
            else:
                viol.append({"sig": "C05/%s/frame-on-unknown-side-band-channel" % tag, "channel": ch})
                break
        if errors:
            viol.append({"sig": "C05/%s/server-reported-error-on-band-3" % tag, "err": repr(errors[0])})
        if case["no_progress"] and progress:
            stats["progress_frames_despite_no_progress"] = progress      # counted: git also sends some band-2 text
        # ACK discipline
        known = set(known_haves)
        for a in acks:
            p = a.split()
            if p[0] == b"ACK":
                # with multi_ack, once the server could give up it acknowledges every further have, known or not, to stop the client
                # (upload-pack.c does the same); without multi_ack only a commit the server has may be acknowledged
                if p[1] not in (known if mode == "none" else set(haves)):
                    viol.append({"sig": "C05/%s/server-acked-%s" % (tag, "a-have-it-does-not-have" if p[1] in set(haves) else "an-id-the-client-never-sent")})
                if len(p) > 2 and mode == "none":
                    viol.append({"sig": "C05/%s/ack-with-status-word-without-multi_ack" % tag, "ack": repr(a)})
                if len(p) > 2 and p[2] not in (b"continue", b"common", b"ready"):
                    viol.append({"sig": "C05/%s/unknown-ack-status" % tag, "ack": repr(a)})
                if len(p) > 2 and mode == "multi_ack" and p[2] != b"continue":
                    viol.append({"sig": "C05/%s/multi_ack-detailed-status-in-plain-multi_ack" % tag, "ack": repr(a)})
        if not acks:
            viol.append({"sig": "C05/%s/no-ACK-or-NAK-before-the-pack" % tag})
        elif known and not any(a.startswith(b"ACK") for a in acks):
            # not a clause of the property (the pack below is still judged for completeness and minimality): counted. Seen on this tree
            # without multi_ack, where the single-ack walker treats the first flush like "done" and never reads later have batches.
            stats["common_commit_offered_but_never_acked"] = stats.get("common_commit_offered_but_never_acked", 0) + 1
        stats["ack_lines"] = len(acks)
        # the pack
        have_cl = closure(sd, sorted(known)) if known else set()
        must = want_cl - (have_cl or set())
        if not pack:
            if must:
                viol.append({"sig": "C05/%s/no-pack-although-objects-are-missing" % tag, "missing": len(must)})
        else:
            try:
                pi = packfmt.parse_pack(bytes(pack))
                ext = {}
                need = [e.base_ref for e in pi.entries if e.type == packfmt.REF_DELTA]
                inpack_raw = None
                if need:
                    ob = object_bytes(sd, [n_.hex().encode() for n_ in need])
                    for n_ in need:
                        v = ob.get(n_.hex().encode())
                        if v:
                            ext[n_] = v
                objs, _ = packfmt.resolve(pi, ext)
                sent = set(k_.hex().encode() for k_ in objs)
                # thin bases must be objects the client said it has
                for n_ in need:
                    hx = n_.hex().encode()
                    if hx not in sent and hx not in (have_cl or set()):
                        viol.append({"sig": "C05/%s/thin-pack-base-is-not-among-the-clients-haves" % tag})
                        break
                stats["wire_packs"] = stats.get("wire_packs", 0) + 1
                stats["wire_objects"] = stats.get("wire_objects", 0) + len(sent)
                lacking = must - sent
                if lacking:
                    tl = sorted(set(types.get(m, b"?").decode() for m in lacking))
                    viol.append({"sig": "C05/%s/pack-lacks-objects-of-the-wanted-closure/%s" % (tag, "+".join(tl)), "n": len(lacking), "known_haves": len(known)})
                allowed = set(want_cl)
                if case["include_tag"]:
                    for name, v in adv.items():
                        if name.startswith(b"refs/tags/") and types.get(v) == b"tag":
                            peeled = core.git(["rev-parse", v.decode() + "^{}"], cwd=sd, check=False).stdout.strip()
                            if peeled in want_cl or peeled in (have_cl or set()):
                                for o in closure(sd, [v]) or set():
                                    if types.get(o) == b"tag":
                                        allowed.add(o)
                extra = sent - allowed
                if extra:
                    tl = sorted(set(types.get(m, b"?").decode() for m in extra))
                    viol.append({"sig": "C05/%s/sent-object-outside-closure-of-wants/%s" % (tag, "+".join(tl)), "n": len(extra)})
                stats["resent_objects_receiver_already_had"] = stats.get("resent_objects_receiver_already_had", 0) + len(sent & (have_cl or set()))
            except Exception as e:
                viol.append({"sig": "C05/%s/wire-pack-undecodable-%s" % (tag, type(e).__name__), "err": str(e)[:150]})
    finally:
        shutil.rmtree(base, ignore_errors=True)
    return {"viol": dedupe(viol), "stats": stats, "evaluations": 1,
            "nontrivial": ["%s|haves=%d+%d|%s" % (tag, len(known_haves), len(unknown_haves), "np" if case["no_progress"] else "p")]}


def run_hostile_want(case):
    """A client asks for an object id the server does not advertise (the commit of a deleted branch, a blob, a tree): the server either
    refuses, or whatever it sends stays within the closure of the refs it advertises."""
    from dulwich.client import HttpGitClient, LocalGitClient, TCPGitClient
    from dulwich.repo import Repo
    if "scratch" not in _st:
        _st["scratch"] = core.Scratch("c05-")
    rng = random.Random(case["seed"])
    base = _st["scratch"].sub("h%d" % rng.randrange(10 ** 9))
    sd, rd = os.path.join(base, "S.git"), os.path.join(base, "R.git")
    viol, stats = [], {}
    try:
        ids, commits, feats = gen_history(sd, rng, case.get("n", 12))
        # a secret: a commit on a branch that is then deleted (objects stay in the store, loose or packed)
        core.git(["fast-import", "--quiet"], cwd=sd, input=b"commit refs/heads/secret\ncommitter C <c@d> 1700009999 +0000\ndata 6\nsecret\n"
                 b"M 644 inline secret.txt\ndata 12\ntop secret!\n\n")
        secret = core.git(["rev-parse", "refs/heads/secret"], cwd=sd).stdout.strip()
        secret_objs = closure(sd, [secret])
        core.git(["update-ref", "-d", "refs/heads/secret"], cwd=sd)
        if rng.random() < 0.5:
            core.git(["repack", "-adkq"], cwd=sd)
        srefs = refs_of(sd)
        advertised = closure(sd, list(srefs.values())) or set()
        hidden = set(all_objects(sd)) - advertised
        if not hidden:
            return {"viol": [], "stats": {}, "evaluations": 0, "nontrivial": []}
        types = all_objects(sd)
        target_kind = rng.choice(["commit", "commit", "tree", "blob"])
        cands = sorted(h for h in hidden if types.get(h) == target_kind.encode()) or sorted(hidden)
        want = rng.choice(cands)
        transport = case["transport"]
        core.git(["init", "-q", "--bare", rd])
        stats["hostile_wants"] = 1
        srv = None
        got_exc = None
        wire = []
        try:
            r = Repo(rd)
            try:
                def det(refs, depth=None):
                    return [want] + ([rng.choice(sorted(srefs.values()))] if srefs and rng.random() < 0.4 else [])
                if transport == "local":
                    LocalGitClient().fetch(sd, r, determine_wants=det)
                elif transport == "tcp":
                    srv = TCPServer(sd)
                    TCPGitClient("127.0.0.1", port=srv.port).fetch("/", r, determine_wants=det)
                else:
                    srv = HTTPServer(sd)
                    HttpGitClient("http://127.0.0.1:%d/" % srv.port).fetch("/", r, determine_wants=det)
            finally:
                r.close()
        except (MemoryError, RecursionError):
            raise
        except Exception as e:
            got_exc = type(e).__name__
        finally:
            if srv is not None:
                srv.close()
        received = set(all_objects(rd))
        leaked = received - advertised
        stats["hostile_want_%s" % ("refused" if got_exc else "served")] = 1
        if leaked:
            viol.append({"sig": "C05/hostile-want/%s/server-sent-objects-unreachable-from-advertised-refs/%s" % (transport, target_kind),
                         "leaked": len(leaked), "includes_secret_blob": bool(leaked & secret_objs), "client_exception": got_exc})
    finally:
        shutil.rmtree(base, ignore_errors=True)
    return {"viol": dedupe(viol), "stats": stats, "evaluations": 1, "nontrivial": ["hostile-want:%s:%s" % (case["transport"], target_kind)]}


def dedupe(viol):
    seen, out = set(), []
    for v in viol:
        if v["sig"] not in seen:
            seen.add(v["sig"])
            out.append(v)
    return out


def run_push(case):
    from dulwich.client import LocalGitClient, SubprocessGitClient
    from dulwich.repo import Repo
    if "scratch" not in _st:
        _st["scratch"] = core.Scratch("c05-")
    rng = random.Random(case["seed"])
    base = _st["scratch"].sub("p%d" % rng.randrange(10 ** 9))
    sd, rd = os.path.join(base, "S.git"), os.path.join(base, "R.git")
    viol, stats, nt = [], {}, set()
    _st.pop("aoc", None)
    try:
        ids, commits, feats = gen_history(sd, rng, case.get("n", 16))
        rmode = rng.choice(["empty", "partial", "partial"])
        make_receiver(rd, sd, rng, ids, commits, rmode)
        srefs = refs_of(sd)
        names = sorted(srefs)
        push_names = rng.sample(names, rng.randint(1, len(names)))
        transport = case["transport"]
        tag = "push-" + transport
        srv = None
        try:
            if transport in ("local", "subprocess-receive-pack"):
                src = Repo(sd)
                try:
                    def update_refs(refs):
                        return {n: srefs[n] for n in push_names}

                    def gen(have, want, ofs_delta=False, progress=None):
                        return src.generate_pack_data(have, want, ofs_delta=ofs_delta, progress=progress)
                    cl = LocalGitClient() if transport == "local" else SubprocessGitClient()
                    res = cl.send_pack(rd, update_refs, gen)
                    bad = {k: v for k, v in (res.ref_status or {}).items() if v}
                    if bad:
                        viol.append({"sig": "C05/%s/push-of-new-refs-rejected" % tag, "status": repr(bad)[:200]})
                finally:
                    src.close()
            elif transport == "cgit-to-dulwich-tcp":
                srv = TCPServer(rd)
                specs = ["%s:%s" % (srefs[n].decode(), n.decode()) for n in push_names]
                r = core.git(["push", "-q", "git://127.0.0.1:%d/" % srv.port] + specs, cwd=sd, check=False, timeout=120)
                if r.returncode != 0:
                    viol.append({"sig": "C05/%s/git-push-to-dulwich-server-fails" % tag, "err": r.stderr.decode(errors="replace")[-300:]})
        except Exception as e:
            import traceback
            viol.append({"sig": "C05/%s/transfer-raises-%s" % (tag, type(e).__name__), "msg": str(e)[:200], "tb": traceback.format_exc()[-500:]})
        finally:
            if srv:
                srv.close()
        stats["transfers"] = 1
        rrefs = refs_of(rd)
        got = {n: rrefs[n] for n in push_names if n in rrefs}
        for n in push_names:
            if not viol and rrefs.get(n) != srefs[n]:
                viol.append({"sig": "C05/%s/pushed-ref-missing-or-different-on-receiver" % tag})
        if got:
            judge_receiver(tag, sd, rd, got, viol, stats)
        for v in viol:
            v["features"] = sorted(feats)
        nt.add("%s:%s:%d:%s" % (tag, rmode, len(push_names), "+".join(sorted(f for f in feats if f.startswith("tag-of") or f == "gitlink"))[:50]))
    finally:
        shutil.rmtree(base, ignore_errors=True)
    return {"viol": dedupe(viol), "stats": stats, "nontrivial": sorted(nt), "evaluations": 1}


def worker_exit():
    if "scratch" in _st:
        _st["scratch"].cleanup()


def run_case(case):
    if case.get("kind") == "hostile-want":
        return run_hostile_want(case)
    if case.get("kind") == "scripted-upload-pack":
        return run_scripted_upload_pack(case)
    return {"fetch": run_fetch, "push": run_push}[case["kind"]](case)


FETCH_T = ["local", "local-fetch_pack", "tcp-dulwich", "tcp-dulwich-fetch_pack", "tcp-cgit-v0", "tcp-cgit-v2", "http-cgit", "subprocess-upload-pack", "depth",
           "depth-branches"]
PUSH_T = ["local", "subprocess-receive-pack", "cgit-to-dulwich-tcp"]


def main(ctx):
    cases = []
    per = ctx.budget(40, 400)
    for t in FETCH_T:
        for i in range(per):
            cases.append({"kind": "fetch", "transport": t, "seed": "%d/f/%s/%d" % (ctx.seed, t, i), "n": 18})
    for t in PUSH_T:
        for i in range(ctx.budget(30, 300)):
            cases.append({"kind": "push", "transport": t, "seed": "%d/p/%s/%d" % (ctx.seed, t, i), "n": 16})
    for mode in ("none", "multi_ack", "multi_ack_detailed"):
        for no_done in (False, True):
            for include_tag in (False, True):
                for no_progress in (False, True):
                    if no_done and mode != "multi_ack_detailed":
                        continue
                    for i in range(ctx.budget(10, 100)):
                        cases.append({"kind": "scripted-upload-pack", "transport": "scripted", "mode": mode, "no_done": no_done, "include_tag": include_tag,
                                      "no_progress": no_progress, "seed": "%d/u/%s/%s/%s/%s/%d" % (ctx.seed, mode, no_done, include_tag, no_progress, i)})
    for t in ("local", "tcp", "http"):
        for i in range(ctx.budget(20, 200)):
            cases.append({"kind": "hostile-want", "transport": t, "seed": "%d/h/%s/%d" % (ctx.seed, t, i), "n": 10})
    ctx.rule = ("random DAGs from git fast-import (merges, octopus, several roots, shared blobs/subtrees, gitlinks, symlinks, annotated tags of "
                "commits/trees/blobs/tags) x receiver pre-state {empty, ancestor-closed partial history} x wants {all, some, one} x %d fetch and %d "
                "push transports; hostile wants: a dulwich client asks the in-process, TCP and smart-HTTP servers for an object they do not advertise "
                "(commit of a deleted branch, tree, blob; loose or packed); a scripted upload-pack client for every optional capability "
                "combination (multi_ack none/multi_ack/detailed x no-done x include-tag x no-progress) with known and unknown haves in batches, its "
                "reply decoded with the independent pkt-line, side-band and pack readers. non-trivial = distinct (transport, receiver state, want kind, feature set)." % (len(FETCH_T), len(PUSH_T)))
    ctx.assumptions = ["closures computed with git rev-list --objects on the sender", "gitlink targets are not part of a closure",
                       "objects the receiver already had that are resent are counted, not judged"]

    def on_result(case, out):
        if out["status"] != "ok":
            if out["status"] == "timeout":
                ctx.inconc("timeout %s %s" % (case["kind"], case["transport"]))
            else:
                ctx.violation("C05/%s/harness-%s/%s" % (case["kind"], out["status"], out.get("exc")), case, out)
            return
        res = out["result"]
        ctx.merge(res)
        for v in res.get("viol", []):
            ctx.violation(v["sig"], case, v)
        ctx.sample(case, case["kind"] + ":" + case["transport"])
    ctx.sample_cap = 14
    pool.pmap("vt.checks.c05", cases, timeout=900, on_result=on_result, ext_table=getattr(ctx, "ext_table", None))
    if not ctx.stats["transfers"] or not ctx.stats["wire_packs"] or not ctx.stats["closure_objects_checked"]:
        return "monitors never reached"
    return None
