"""C09 — a crash at any instant leaves a repository that opens and is consistent.

Crash-point engine (snapshot mode): a scenario runs once under vt.mon.fsint; immediately *before* every
mutating file-system call (creat/open-for-write, write, truncate, rename/replace, unlink, link, mkdir, rmdir,
chmod, utime, fsync, close) and after the last one, the directory tree is copied with the real functions.
File proxies push every write to the OS at once, so snapshot i is exactly the on-disk state a process crash
before call i leaves (completed writes survive, buffered ones are lost).  Power-loss variants (scenarios run
with core.fsyncObjectFiles=true): every file with data written since its last fsync is additionally
truncated to its last-synced length / to zero.  Each state goes through the post-crash checker:
Repo opens; every ref holds its old or new value and names a present object; every object of the
pre-operation closure is readable through dulwich with identical type and bytes; index / config /
packed-refs parse to old or new; `git fsck --full --strict` passes and `git for-each-ref` lists old-or-new.
A sample of crash points is cross-validated with a real SIGKILL under strace (thorough tier).
"""
import os
import random
import shutil
import subprocess
import sys

from vt import core, pool
from vt.mon import fsint

LEVEL = "fault_enumeration"
_st = {}
SNAP_OPS = fsint.MUTATING


# ------------------------------------------------------------------------------ template repositories
def build_template(d, variant):
    core.git(["init", "-q", d])
    core.git(["config", "gc.auto", "0"], cwd=d)
    core.git(["config", "user.name", "T"], cwd=d)
    core.git(["config", "user.email", "t@t"], cwd=d)
    if variant.get("fsync"):
        core.git(["config", "core.fsyncObjectFiles", "true"], cwd=d)
    for i in range(3):
        with open(os.path.join(d, "f%d.txt" % (i % 2)), "w") as f:
            f.write("".join("content %d line %d\n" % (i, j) for j in range(120 + i)))  # big enough for git to deltify (thin packs)
        core.git(["add", "."], cwd=d)
        core.git(["commit", "-q", "-m", "c%d" % i], cwd=d)
    core.git(["branch", "side", "HEAD~1"], cwd=d)
    core.git(["tag", "-a", "-m", "t", "v1", "HEAD~2"], cwd=d)
    if variant.get("objects") in ("packed", "mixed"):
        core.git(["repack", "-adq"], cwd=d)
    if variant.get("objects") == "mixed":
        with open(os.path.join(d, "f2.txt"), "w") as f:
            f.write("loose content\n")
        core.git(["add", "."], cwd=d)
        core.git(["commit", "-q", "-m", "loose commit"], cwd=d)
    if variant.get("refs") in ("packed", "mixed"):
        core.git(["pack-refs", "--all"], cwd=d)
    if variant.get("refs") == "mixed":
        core.git(["branch", "looseb", "HEAD"], cwd=d)
        core.git(["update-ref", "refs/heads/side", "HEAD"], cwd=d)  # loose shadows packed
    if variant.get("detached"):
        # HEAD detached on a commit that no branch or tag contains: HEAD alone keeps it alive
        core.git(["checkout", "-q", "--detach"], cwd=d)
        with open(os.path.join(d, "f0.txt"), "a") as f:
            f.write("only HEAD reaches this\n")
        core.git(["commit", "-q", "-am", "detached"], cwd=d)
    # an unreachable object
    r = core.git(["hash-object", "-w", "--stdin"], cwd=d, input=b"unreachable\n")
    return d


def pre_state(d):
    """refs, symrefs and the (type, bytes) of every object, read through git (independent of dulwich)."""
    refs = {}
    r = core.git(["for-each-ref", "--format=%(refname) %(objectname)"], cwd=d)
    for line in r.stdout.splitlines():
        n, v = line.split()
        refs[n] = v
    head = core.git(["rev-parse", "HEAD"], cwd=d).stdout.strip()
    objs = {}
    lst = core.git(["cat-file", "--batch-all-objects", "--batch-check"], cwd=d).stdout.splitlines()
    ids = [l.split()[0] for l in lst]
    out = core.git(["cat-file", "--batch"], cwd=d, input=b"\n".join(ids) + b"\n").stdout
    pos = 0
    for i in ids:
        nl = out.index(b"\n", pos)
        _, t, sz = out[pos:nl].split()
        objs[i] = (t, out[nl + 1:nl + 1 + int(sz)])
        pos = nl + 1 + int(sz) + 1
    reach = set(core.git(["rev-list", "--objects", "--all"], cwd=d).stdout.split()[::1])
    reach = {x for x in (l.split()[0] for l in core.git(["rev-list", "--objects", "--all"], cwd=d).stdout.splitlines())}
    for tg in core.git(["for-each-ref", "--format=%(objectname)", "refs/tags"], cwd=d).stdout.split():
        reach.add(tg)
    return {"refs": refs, "head": head, "objects": objs, "reachable": reach}


# ------------------------------------------------------------------------------ scenarios
def scenarios():
    from dulwich.config import ConfigFile
    from dulwich.index import Index
    from dulwich.objects import Blob, Commit, Tree
    from dulwich.repo import Repo

    def with_repo(fn):
        def run(p, pre):
            r = Repo(p)
            try:
                return fn(r, p, pre)
            finally:
                r.close()
        return run

    S = {}

    def s_add_object(r, p, pre):
        r.object_store.add_object(Blob.from_string(b"crash test blob\n" * 600))
    S["add_object"] = with_repo(s_add_object)

    def s_add_objects(r, p, pre):
        blobs = [Blob.from_string(b"packed blob %d\n" % i * 50) for i in range(4)]
        r.object_store.add_objects([(b, None) for b in blobs])
    S["add_objects"] = with_repo(s_add_objects)

    def s_commit(r, p, pre):
        with open(os.path.join(p, "new.txt"), "w") as f:
            f.write("new file\n")
        wt = r.get_worktree()
        wt.stage(["new.txt"])
        wt.commit(message=b"crash commit", committer=b"C <c@d>", author=b"A <a@b>", commit_timestamp=1700000500, commit_timezone=0,
                  author_timestamp=1700000500, author_timezone=0)
    S["commit"] = with_repo(s_commit)

    def s_set_ref(r, p, pre):
        old = r.refs[b"refs/heads/side"]
        assert r.refs.set_if_equals(b"refs/heads/side", old, pre["head"])
    S["set_if_equals"] = with_repo(s_set_ref)

    def s_add_if_new(r, p, pre):
        assert r.refs.add_if_new(b"refs/heads/brand/new", pre["head"])
    S["add_if_new"] = with_repo(s_add_if_new)

    def s_remove(r, p, pre):
        assert r.refs.remove_if_equals(b"refs/heads/side", r.refs[b"refs/heads/side"])
    S["remove_if_equals"] = with_repo(s_remove)

    def s_symref(r, p, pre):
        r.refs.set_symbolic_ref(b"HEAD", b"refs/heads/side")
    S["set_symbolic_ref"] = with_repo(s_symref)

    def s_pack_refs(r, p, pre):
        r.refs.pack_refs(all=True)
    S["pack_refs"] = with_repo(s_pack_refs)

    def s_pack_loose(r, p, pre):
        r.object_store.pack_loose_objects()
    S["pack_loose_objects"] = with_repo(s_pack_loose)

    def s_repack(r, p, pre):
        r.object_store.repack()
    S["repack"] = with_repo(s_repack)

    def s_gc(r, p, pre):
        from dulwich.gc import garbage_collect
        garbage_collect(r, grace_period=0)
    S["gc"] = with_repo(s_gc)

    def s_index(r, p, pre):
        idx = r.open_index()
        e = idx[b"f0.txt"]
        for i in range(30):
            idx[b"added/%d.txt" % i] = e
        idx.write()
    S["index_write"] = with_repo(s_index)

    def s_config(r, p, pre):
        c = r.get_config()
        c.set((b"remote", b"origin"), b"url", b"https://example.com/" + b"x" * 2000)
        c.write_to_path()
    S["config_write"] = with_repo(s_config)

    def s_commit_graph(r, p, pre):
        r.object_store.write_commit_graph([pre["head"]], reachable=True)
    S["write_commit_graph"] = with_repo(s_commit_graph)

    def s_midx(r, p, pre):
        r.object_store.write_midx()
    S["write_midx"] = with_repo(s_midx)

    def s_thin(r, p, pre):
        import io
        src = _st["thin_src"]
        thin = core.git(["pack-objects", "--thin", "--stdout", "--revs", "-q"], cwd=src, input=b"newer\n^master\n").stdout
        r.object_store.add_thin_pack(io.BytesIO(thin).read, None)
    S["add_thin_pack"] = with_repo(s_thin)

    def s_redeliver(r, p, pre):
        # the same set of objects as an existing pack arrives again in another byte layout (re-delivery of a history, re-import of a
        # bundle): the pack gets the same name; a fresh process (nothing looked up yet) completes it
        data = _st.get("same_set_pack")
        f, commit, abort = r.object_store.add_pack()
        try:
            f.write(data)
        except BaseException:
            abort()
            raise
        commit()
    S["redeliver_same_objects"] = with_repo(s_redeliver)

    def s_fetch(r, p, pre):
        from dulwich.client import LocalGitClient
        src = _st["thin_src"]
        res = LocalGitClient().fetch(src, r)
        r.refs[b"refs/remotes/origin/newer"] = res.refs[b"refs/heads/newer"]
    S["fetch_into"] = with_repo(s_fetch)

    def s_push_into(r, p, pre):
        # receive side: a push from the newer source repository into this one
        from dulwich.client import LocalGitClient
        from dulwich.repo import Repo as R2
        src = R2(_st["thin_src"])
        try:
            newer = src.refs[b"refs/heads/newer"]

            def update_refs(refs):
                return {b"refs/heads/pushed": newer}

            def gen(have, want, ofs_delta=False, progress=None):
                return src.generate_pack_data(have, want, ofs_delta=ofs_delta, progress=progress)
            LocalGitClient().send_pack(p, update_refs, gen)
        finally:
            src.close()
    S["push_into"] = with_repo(s_push_into)
    return S


SCENARIOS = ["redeliver_same_objects", "add_object", "add_objects", "commit", "set_if_equals", "add_if_new", "remove_if_equals", "set_symbolic_ref", "pack_refs",
             "pack_loose_objects", "repack", "gc", "index_write", "config_write", "write_commit_graph", "write_midx", "add_thin_pack", "fetch_into",
             "push_into"]
VARIANTS = {"loose": {"objects": "loose", "refs": "loose"}, "packed": {"objects": "packed", "refs": "packed"},
            "mixed": {"objects": "mixed", "refs": "mixed"}, "mixed-fsync": {"objects": "mixed", "refs": "mixed", "fsync": True},
            "mixed-detached": {"objects": "mixed", "refs": "mixed", "detached": True}}


def ensure_templates():
    if "scratch" in _st:
        return
    _st["scratch"] = core.Scratch("c09-")
    _st["tmpl"] = {}
    _st["pre"] = {}
    for name, v in VARIANTS.items():
        d = _st["scratch"].sub("tmpl-" + name)
        build_template(d, v)
        _st["tmpl"][name] = d
        _st["pre"][name] = pre_state(d)
    # source repository that extends the template history (for thin pack / fetch / push scenarios)
    src = _st["scratch"].sub("thin-src")
    shutil.rmtree(src)
    shutil.copytree(_st["tmpl"]["mixed"], src, symlinks=True)
    core.git(["checkout", "-q", "-b", "newer"], cwd=src)
    for i in range(2):
        with open(os.path.join(src, "f0.txt"), "a") as f:
            f.write("newer line %d\n" % i)
        core.git(["commit", "-q", "-am", "newer %d" % i], cwd=src)
    core.git(["branch", "-f", "master", "newer~2"], cwd=src)
    _st["thin_src"] = src
    # the objects of the "packed" template's only pack, written again without deltas and in reverse order: same set, same pack name
    pk = _st["tmpl"]["packed"]
    pdir = os.path.join(pk, ".git", "objects", "pack")
    idxf = [f for f in os.listdir(pdir) if f.endswith(".idx")][0]
    lines = core.git(["verify-pack", "-v", os.path.join(pdir, idxf)], cwd=pk).stdout.splitlines()
    oids = [l.split()[0] for l in lines if len(l.split()) >= 4 and len(l.split()[0]) == 40]
    _st["same_set_pack"] = core.git(["pack-objects", "--stdout", "--window=0", "--depth=0", "-q"], cwd=pk, input=b"\n".join(reversed(oids)) + b"\n",
                                    extra_cfg=["pack.compression=1"]).stdout
    # C git names a pack after its trailer, dulwich after its object set: for the re-delivered pack to get the name of the one in
    # place, the first delivery must have gone through dulwich too
    from dulwich.repo import Repo
    pdw = _st["scratch"].sub("tmpl-packed-dulwich")
    shutil.rmtree(pdw)
    shutil.copytree(pk, pdw, symlinks=True)
    first = open(os.path.join(pdir, idxf[:-4] + ".pack"), "rb").read()
    pd2 = os.path.join(pdw, ".git", "objects", "pack")
    for f_ in os.listdir(pd2):
        os.chmod(os.path.join(pd2, f_), 0o644)
        os.unlink(os.path.join(pd2, f_))
    r_ = Repo(pdw)
    try:
        f, commit, abort = r_.object_store.add_pack()
        f.write(first)
        commit()
    finally:
        r_.close()
    _st["tmpl"]["packed-dulwich"] = pdw
    _st["pre"]["packed-dulwich"] = pre_state(pdw)
    _st["scen"] = scenarios()


# ------------------------------------------------------------------------------ checker
def check_state(d, pre, post, tag, viol, extra_ok_objects=()):
    """Post-crash checker on directory d. pre/post: states before / after the complete operation."""
    from dulwich.config import ConfigFile
    from dulwich.index import Index
    from dulwich.repo import Repo
    try:
        r = Repo(d)
    except Exception as e:
        viol.append({"sig": "C09/%s/repository-does-not-open-%s" % (tag, type(e).__name__), "msg": str(e)[:120]})
        return
    try:
        try:
            refs = r.refs.as_dict()
        except Exception as e:
            viol.append({"sig": "C09/%s/refs-unreadable-%s" % (tag, type(e).__name__), "msg": str(e)[:120]})
            refs = {}
        allowed = set(pre["refs"]) | set(post["refs"])
        for n in allowed:
            v = refs.get(n)
            ok_vals = {pre["refs"].get(n), post["refs"].get(n)}
            if v not in ok_vals:
                viol.append({"sig": "C09/%s/ref-neither-old-nor-new" % tag, "ref": n.decode(), "value": v and v.decode(),
                             "old": pre["refs"].get(n) and pre["refs"][n].decode(), "new": post["refs"].get(n) and post["refs"][n].decode()})
        for n, v in refs.items():
            if n != b"HEAD" and n not in allowed:
                viol.append({"sig": "C09/%s/unexpected-ref-appeared" % tag, "ref": n.decode()})
            try:
                if v not in r.object_store:
                    viol.append({"sig": "C09/%s/ref-names-missing-object" % tag, "ref": n.decode()})
            except Exception as e:
                viol.append({"sig": "C09/%s/object-lookup-raises-%s" % (tag, type(e).__name__), "ref": n.decode()})
        # every object reachable before is still readable, same type and bytes
        bad = 0
        for oid in pre["reachable"]:
            try:
                o = r.object_store[oid]
                if (o.type_name, o.as_raw_string()) != pre["objects"][oid]:
                    viol.append({"sig": "C09/%s/reachable-object-changed-content" % tag, "id": oid.decode()})
                    bad += 1
            except KeyError:
                viol.append({"sig": "C09/%s/reachable-object-unreadable" % tag, "id": oid.decode()})
                bad += 1
            except Exception as e:
                viol.append({"sig": "C09/%s/reachable-object-read-raises-%s" % (tag, type(e).__name__), "id": oid.decode(), "msg": str(e)[:100]})
                bad += 1
            if bad > 2:
                break
        # objects that are visible must hash to their name (no half-written object taken for valid data)
        try:
            for oid in list(r.object_store):
                if oid in pre["objects"]:
                    continue
                o = r.object_store[oid]
                if o.id != oid:
                    viol.append({"sig": "C09/%s/visible-object-does-not-hash-to-its-name" % tag})
        except Exception as e:
            viol.append({"sig": "C09/%s/object-iteration-raises-%s" % (tag, type(e).__name__), "msg": str(e)[:120]})
        # index / config: parse to old or new
        try:
            idx = Index(os.path.join(d, ".git", "index"))
            names = sorted(idx)
            if names not in (pre.get("index"), post.get("index")):
                viol.append({"sig": "C09/%s/index-parses-to-neither-old-nor-new" % tag, "n": len(names)})
        except Exception as e:
            viol.append({"sig": "C09/%s/index-unreadable-%s" % (tag, type(e).__name__), "msg": str(e)[:100]})
        try:
            cf = ConfigFile.from_path(os.path.join(d, ".git", "config"))
            items = sorted((s, k, v) for s in cf.sections() for k, v in cf.items(s))
            if items not in (pre.get("config"), post.get("config")):
                viol.append({"sig": "C09/%s/config-parses-to-neither-old-nor-new" % tag})
        except Exception as e:
            viol.append({"sig": "C09/%s/config-unreadable-%s" % (tag, type(e).__name__), "msg": str(e)[:100]})
    finally:
        r.close()
    # git's view
    fs = core.git(["fsck", "--full", "--strict", "--no-progress"], cwd=d, check=False)
    if fs.returncode != 0:
        msg = (fs.stderr + fs.stdout).decode(errors="replace")
        kind = "missing-or-corrupt-object" if ("missing" in msg or "corrupt" in msg or "invalid" in msg) else "other"
        viol.append({"sig": "C09/%s/git-fsck-fails/%s" % (tag, kind), "out": msg[-400:]})
    fr = core.git(["for-each-ref", "--format=%(refname) %(objectname)"], cwd=d, check=False)
    if fr.returncode != 0:
        viol.append({"sig": "C09/%s/git-for-each-ref-fails" % tag, "err": fr.stderr.decode(errors="replace")[-200:]})
    else:
        for line in fr.stdout.splitlines():
            n, v = line.split()
            if v not in (pre["refs"].get(n), post["refs"].get(n)):
                viol.append({"sig": "C09/%s/git-lists-ref-neither-old-nor-new" % tag, "ref": n.decode()})
        listed = {l.split()[0] for l in fr.stdout.splitlines()}
        for n in pre["refs"]:
            if n in post["refs"] and n not in listed:
                viol.append({"sig": "C09/%s/git-misses-ref-that-exists-before-and-after" % tag, "ref": n.decode()})


def aux_state(d):
    from dulwich.config import ConfigFile
    from dulwich.index import Index
    out = {}
    try:
        out["index"] = sorted(Index(os.path.join(d, ".git", "index")))
    except Exception:
        out["index"] = None
    cf = ConfigFile.from_path(os.path.join(d, ".git", "config"))
    out["config"] = sorted((s, k, v) for s in cf.sections() for k, v in cf.items(s))
    return out


def refs_only(d):
    refs = {}
    r = core.git(["for-each-ref", "--format=%(refname) %(objectname)"], cwd=d)
    for line in r.stdout.splitlines():
        n, v = line.split()
        refs[n] = v
    return refs


def run_scenario(case):
    ensure_templates()
    name, variant = case["scenario"], case["variant"]
    pre = dict(_st["pre"][variant])
    base = _st["scratch"].sub("run-%s-%s" % (name, variant))
    work = os.path.join(base, "work")
    shutil.copytree(_st["tmpl"][variant], work, symlinks=True)
    pre.update(aux_state(work))
    snaps = []
    synced = {}      # path -> length at last fsync
    written = set()  # files written/created during the operation
    layer = fsint.Layer(work)
    counter = [0]
    power = bool(VARIANTS.get(variant, {}).get("fsync"))
    unsynced_at = {}
    pending = []

    def hook(ev):
        if ev["op"] == "fsync" and ev["path"]:
            try:
                with fsint.Bypass():
                    synced[ev["path"]] = os.path.getsize(os.path.join(work, ev["path"]))
            except OSError:
                pass
        # a rename seen at the previous event has been executed by now: carry the bookkeeping over to the new name
        if pending:
            src, dst = pending.pop()
            if src in synced:
                synced[dst] = synced.pop(src)
            else:
                synced.pop(dst, None)
            if src in written:
                written.discard(src)
                written.add(dst)
            else:
                written.discard(dst)
        if ev["op"] in ("rename", "replace") and ev.get("path2"):
            pending.append((ev["path"], ev["path2"]))
        if ev["op"] in SNAP_OPS:
            counter[0] += 1
            sd = os.path.join(base, "snap%04d" % counter[0])
            fsint.snapshot_tree(work, sd)
            snaps.append((counter[0], sd, "%s:%s" % (ev["op"], _cls(ev["path"])) if not ev.get("final") else "end-of-operation"))
            if power:
                unsynced_at[counter[0]] = {p: synced.get(p, 0) for p in written}
        if ev["op"] in ("creat", "write", "open-w") and ev["path"]:
            written.add(ev["path"])

    layer.hook = hook
    viol, stats = [], {}
    fsint.install(layer)
    layer.register_actor("op")
    err = None
    try:
        try:
            _st["scen"][name](work, pre)
        except Exception as e:
            import traceback
            err = "%s: %s" % (type(e).__name__, str(e)[:200])
            tb = traceback.format_exc()[-800:]
    finally:
        layer.unregister_actor()
        fsint.uninstall()
    if not err:
        # the state after the last call is a crash point too (power loss can still take unsynced data away)
        hook({"op": "close-w", "path": None, "actor": "op", "final": True})
    if err:
        shutil.rmtree(base, ignore_errors=True)
        if case.get("optional"):
            return {"viol": [], "stats": {"scenario_not_applicable": 1}, "evaluations": 1, "nontrivial": []}
        return {"viol": [{"sig": "C09/%s/HARNESS-scenario-fails-without-crash" % name, "err": err, "tb": tb}], "stats": {}, "evaluations": 1}
    post = {"refs": refs_only(work)}
    post.update(aux_state(work))
    # the complete state must itself be consistent
    check_state(work, pre, post, "%s/%s/complete" % (name, variant), viol)
    stats["crash_points"] = len(snaps)
    nstates = 0
    mech = set()
    for i, sd, where in snaps:
        tag = "%s/%s/crash-before-%s" % (name, variant, where)
        nv = len(viol)
        check_state(sd, pre, post, tag, viol)
        for v in viol[nv:]:
            v["crash_point"] = i
        nstates += 1
        mech.add(where)
        if power and i in unsynced_at:
            for pth, slen in unsynced_at[i].items():
                full = os.path.join(sd, pth)
                if not os.path.isfile(full):
                    continue
                cur = os.path.getsize(full)
                if slen >= cur:
                    continue  # everything written so far had been fsynced: nothing can be lost
                for newlen in sorted({slen, 0}):
                    if newlen >= cur:
                        continue
                    vd = os.path.join(base, "var")
                    shutil.copytree(sd, vd, symlinks=True)
                    with open(os.path.join(vd, pth), "r+b") as f:
                        f.truncate(newlen)
                    nv = len(viol)
                    check_state(vd, pre, post, "%s/%s/power-loss-%s-unsynced-%s" % (name, variant, where, _cls(pth)), viol)
                    for v in viol[nv:]:
                        v["crash_point"] = i
                        v["truncated"] = pth
                    nstates += 1
                    stats["power_loss_variants"] = stats.get("power_loss_variants", 0) + 1
                    shutil.rmtree(vd, ignore_errors=True)
        shutil.rmtree(sd, ignore_errors=True)
    stats["crash_states_checked"] = nstates
    stats["scenarios"] = 1
    events = [(e["op"], e["path"]) for e in layer.log if e["op"] in SNAP_OPS]
    shutil.rmtree(base, ignore_errors=True)
    seen, out = set(), []
    for v in viol:
        if v["sig"] not in seen:
            seen.add(v["sig"])
            out.append(v)
    return {"viol": out, "stats": stats, "evaluations": nstates,
            "nontrivial": ["cp:%s:%s:%d" % (name, variant, i) for i in range(len(snaps))],
            "sample": {"scenario": name, "variant": variant, "crash_points": len(snaps), "mutating_calls": events[:40]}}


def _cls(path):
    """class of path for signatures"""
    if not path:
        return "?"
    p = path.replace(".git/", "")
    if p.endswith(".lock"):
        p2 = p[:-5]
        return "lock(" + _cls(p2) + ")"
    if p.startswith("refs/") or p == "HEAD":
        return "ref"
    if p.startswith("packed-refs"):
        return "packed-refs"
    if p.startswith("objects/pack/"):
        b = os.path.basename(p)
        if b.startswith("tmp"):
            return "tmp-pack"
        return "pack-" + b.rsplit(".", 1)[-1]
    if p.startswith("objects/info"):
        return "objects-info"
    if p.startswith("objects/"):
        return "loose-object" if len(p.split("/")) == 3 else "objects-dir"
    if p == "index":
        return "index"
    if p == "config":
        return "config"
    if p.startswith("logs"):
        return "reflog"
    return "other"


# ------------------------------------------------------------------------------ real SIGKILL cross-validation
CHILD = r'''
import sys, os
sys.path.insert(0, %(verif)r)
from vt import core
core.install_ext()
from vt.checks import c09
c09._st["thin_src"] = %(thin)r
S = c09.scenarios()
pre = {"head": %(head)r}
S[%(name)r](%(work)r, pre)
'''


def run_kill(case):
    """Real process kill: the scenario runs in a child under `strace -f -e inject=<syscall>:signal=SIGKILL:when=k`; the
    directory left behind must satisfy the same checker."""
    ensure_templates()
    name, variant = case["scenario"], case["variant"]
    pre = dict(_st["pre"][variant])
    base = _st["scratch"].sub("kill-%s-%s" % (name, variant))
    viol, stats = [], {}
    work0 = os.path.join(base, "ref")
    shutil.copytree(_st["tmpl"][variant], work0, symlinks=True)
    pre.update(aux_state(work0))
    script = CHILD % {"verif": core.ROOT, "thin": _st["thin_src"], "head": pre["head"], "name": name, "work": work0}
    env = dict(os.environ, VERIF_EXT_TABLE=os.environ.get("VERIF_EXT_TABLE", "{}"), PYTHONPATH=core.ROOT)
    # reference run (no kill) counts the mutating syscalls by name
    tr = os.path.join(base, "trace.txt")
    r = subprocess.run(["strace", "-f", "-o", tr, "-e", "trace=rename,renameat,renameat2,unlink,unlinkat,link,linkat,openat,write,mkdir,rmdir,fsync,chmod,fchmod",
                        core.PY, "-c", script], env=env, stdout=subprocess.PIPE, stderr=subprocess.PIPE, timeout=300)
    if r.returncode != 0:
        shutil.rmtree(base, ignore_errors=True)
        return {"viol": [], "stats": {"kill_reference_run_failed": 1}, "evaluations": 1, "nontrivial": []}
    post = {"refs": refs_only(work0)}
    post.update(aux_state(work0))
    counts = {}
    for line in open(tr, errors="replace"):
        if work0 not in line:
            continue
        for sc in ("rename", "unlink", "link", "write", "mkdir", "rmdir"):
            if (" %s(" % sc) in line or (" %sat(" % sc) in line or (" %sat2(" % sc) in line:
                counts[sc] = counts.get(sc, 0) + 1
    rng = random.Random(case["seed"])
    points = []
    for sc in ("rename", "unlink", "mkdir", "rmdir"):
        pass
    nk = 0
    # kill at the k-th rename / unlink / link / mkdir (syscall families that touch the work dir; counts are per syscall name over the
    # whole process, so k is sampled over the total count observed in the reference trace)
    tot = {}
    for line in open(tr, errors="replace"):
        for sc in ("rename", "renameat", "renameat2", "unlink", "unlinkat", "mkdir", "link", "linkat", "fsync"):
            if (" %s(" % sc) in line:
                tot[sc] = tot.get(sc, 0) + 1
    cand = [(sc, k) for sc, n in tot.items() for k in range(1, n + 1)]
    rng.shuffle(cand)
    for sc, k in cand[:case.get("kills", 6)]:
        wk = os.path.join(base, "k")
        shutil.copytree(_st["tmpl"][variant], wk, symlinks=True)
        sc2 = script.replace(work0, wk)
        subprocess.run(["strace", "-f", "-o", "/dev/null", "-e", "trace=%s" % sc, "-e", "inject=%s:signal=SIGKILL:when=%d" % (sc, k),
                        core.PY, "-c", sc2], env=env, stdout=subprocess.PIPE, stderr=subprocess.PIPE, timeout=300)
        nv = len(viol)
        check_state(wk, pre, post, "%s/%s/real-kill-at-%s" % (name, variant, sc.rstrip("at2")), viol)
        for v in viol[nv:]:
            v["kill"] = [sc, k]
        nk += 1
        shutil.rmtree(wk, ignore_errors=True)
    shutil.rmtree(base, ignore_errors=True)
    stats["real_kills"] = nk
    seen, out = set(), []
    for v in viol:
        if v["sig"] not in seen:
            seen.add(v["sig"])
            out.append(v)
    return {"viol": out, "stats": stats, "evaluations": nk, "nontrivial": ["kill:%s:%s:%d" % (name, variant, i) for i in range(nk)]}


def worker_exit():
    if "scratch" in _st:
        _st["scratch"].cleanup()


def run_case(case):
    return {"scenario": run_scenario, "kill": run_kill}[case["kind"]](case)


def main(ctx):
    cases = []
    variants = ["loose", "packed", "mixed", "mixed-fsync", "mixed-detached"]
    for s in SCENARIOS:
        if s == "redeliver_same_objects":
            cases.append({"kind": "scenario", "scenario": s, "variant": "packed-dulwich", "optional": False})
            continue
        for v in (variants if ctx.thorough else (["mixed", "mixed-fsync"] + (["loose"] if s in ("pack_refs", "repack", "gc", "pack_loose_objects", "commit") else []) +
                                                  (["packed", "mixed-detached"] if s in ("repack", "gc", "pack_loose_objects") else []))):
            cases.append({"kind": "scenario", "scenario": s, "variant": v, "optional": s in ("write_midx",)})
    rng = ctx.sub_rng("kill")
    kill_scen = ["commit", "pack_refs", "set_if_equals", "repack", "add_objects", "remove_if_equals"] if not ctx.thorough else SCENARIOS
    for s in kill_scen:
        cases.append({"kind": "kill", "scenario": s, "variant": "mixed", "seed": "%d/k/%s" % (ctx.seed, s), "kills": 4 if not ctx.thorough else 25})
    ctx.rule = ("crash points = every mutating file-system call of each scenario (%d operations x starting states %s), enumerated exhaustively per "
                "scenario; plus power-loss variants (unsynced file truncated to last-synced length / zero) for the fsyncObjectFiles variant; plus "
                "sampled real SIGKILLs under strace. non-trivial = distinct (scenario, variant, crash point)." % (len(SCENARIOS), variants))
    ctx.assumptions = ["crash boundaries are those of interposed Python-level calls (file proxies push each write to the OS immediately)",
                       "power loss = loss of unsynced file data only (no reordering of directory operations)",
                       "stale *.lock / tmp_* files and unreachable garbage are not violations"]
    per = []

    def on_result(case, out):
        if out["status"] != "ok":
            if out["status"] == "timeout":
                ctx.inconc("timeout %s" % case.get("scenario"))
            else:
                ctx.violation("C09/%s/harness-%s/%s" % (case["kind"], out["status"], out.get("exc")), case, out)
            return
        res = out["result"]
        ctx.merge(res)
        for v in res.get("viol", []):
            ctx.violation(v["sig"], case, v)
        if res.get("sample"):
            ctx.sample(res["sample"], case["scenario"])
            per.append([case["scenario"], case["variant"], res["stats"].get("crash_points"), res["stats"].get("crash_states_checked")])

    pool.pmap("vt.checks.c09", cases, timeout=2400, on_result=on_result, ext_table=getattr(ctx, "ext_table", None))
    ctx.info["crash_points_per_scenario"] = per
    ctx.exhaustive = False
    ctx.explanation = "every crash point of every listed scenario is checked (exhaustive per scenario); real kills are a sample"
    if not ctx.stats["crash_states_checked"]:
        return "no crash state checked"
    return None
