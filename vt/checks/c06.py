"""C06 — a push reports success exactly for the refs it changed; server refs stay valid; atomic pushes.

Sequential model of receive-pack (the oracle): given the server state (refs + objects), the objects carried by
the pack and the command list, a command succeeds iff  current(ref) == old (zero id = absent)  and  (new is zero
or new is an object the server has after unpacking);  atomic => all or none.  After the real push the server
refs are read from disk with C git (independent of dulwich) and compared with the raw report-status lines:
ok => value == new / deleted; not ok => value == pre-state; stale old => untouched and rejected; every ref names
an object the server has; atomic => changed set is empty or everything.
Paths: scripted pkt-line client -> real ReceivePackHandler (in process), C git `push [--atomic]
[--force-with-lease]` -> dulwich TCPGitServer on loopback, dulwich LocalGitClient.send_pack, and two racing
pushers under the deterministic scheduler.
"""
import io
import os
import random
import shutil
import socket
import subprocess
import threading

from vt import core, pool
from vt.mon import fsint, sched

LEVEL = "exploration"
_st = {}
ZERO = b"0" * 40


def build_world():
    """server template (bare) + client objects. ids: c0<-c1<-c2 (master), b at c1; client: n1 (child of c2), n2 (child of c1), n3 (new root)."""
    sc = core.Scratch("c06-")
    _st["scratch"] = sc
    srv = sc.sub("server.git")
    cli = sc.sub("client")
    shutil.rmtree(cli)
    work = sc.sub("work")
    core.git(["init", "-q", work])
    ids = {}
    for i in range(3):
        with open(os.path.join(work, "f"), "a") as f:
            f.write("line %d\n" % i * 10)
        core.git(["add", "-A"], cwd=work)
        core.git(["commit", "-q", "-m", "c%d" % i], cwd=work)
        ids["c%d" % i] = core.git(["rev-parse", "HEAD"], cwd=work).stdout.strip()
    core.git(["branch", "b", ids["c1"].decode()], cwd=work)
    core.git(["tag", "-a", "-m", "t", "v1", ids["c0"].decode()], cwd=work)
    shutil.rmtree(srv)
    core.git(["clone", "-q", "--bare", work, srv])
    core.git(["update-ref", "refs/heads/both", ids["c1"].decode()], cwd=srv)
    core.git(["pack-refs", "--all"], cwd=srv)
    core.git(["update-ref", "refs/heads/loose", ids["c2"].decode()], cwd=srv)
    core.git(["update-ref", "refs/heads/both", ids["c2"].decode()], cwd=srv)   # loose value shadows a stale packed one
    core.git(["clone", "-q", work, cli])

    def mk(name, base, root=False):
        if root:
            core.git(["checkout", "-q", "--orphan", "orph-" + name], cwd=cli)
        else:
            core.git(["checkout", "-q", "-B", "w-" + name, base.decode()], cwd=cli)
        with open(os.path.join(cli, "g-" + name), "w") as f:
            f.write("new %s\n" % name * 20)
        core.git(["add", "-A"], cwd=cli)
        core.git(["commit", "-q", "-m", name], cwd=cli)
        ids[name] = core.git(["rev-parse", "HEAD"], cwd=cli).stdout.strip()
    mk("n1", ids["c2"])
    mk("n2", ids["c1"])
    mk("n3", None, root=True)
    mk("n4", ids["c2"])
    _st.update(srv=srv, cli=cli, ids=ids)
    _st["srv_objects"] = set(l.split()[0] for l in core.git(["cat-file", "--batch-all-objects", "--batch-check"], cwd=srv).stdout.splitlines())
    _st["pre_refs"] = server_refs(srv)


def server_refs(d):
    out = {}
    for line in core.git(["for-each-ref", "--format=%(refname) %(objectname)"], cwd=d).stdout.splitlines():
        n, v = line.split()
        out[n] = v
    return out


def make_pack(news, server_has):
    """pack with the objects needed for `news` given what the server has (non-thin)."""
    cli = _st["cli"]
    revs = b"".join(n + b"\n" for n in news) + b"".join(b"^" + h + b"\n" for h in server_has)
    r = core.git(["pack-objects", "--stdout", "--revs", "-q"], cwd=cli, input=revs)
    return r.stdout


def gen_commands(rng):
    ids = _st["ids"]
    pre = _st["pre_refs"]
    refs = [b"refs/heads/master", b"refs/heads/b", b"refs/heads/loose", b"refs/heads/both", b"refs/heads/newbranch", b"refs/tags/newtag",
            b"refs/heads/other/deep"]
    cmds = []
    used = set()
    for _ in range(rng.choice([1, 1, 2, 3])):
        ref = rng.choice([r for r in refs if r not in used])
        used.add(ref)
        cur = pre.get(ref, ZERO)
        oldk = rng.choice(["right", "right", "right", "stale", "zero-but-exists" if cur != ZERO else "nonzero-but-absent"])
        if oldk == "right":
            old = cur
        elif oldk == "stale":
            old = rng.choice([v for v in (ids["c0"], ids["c1"], ids["c2"]) if v != cur])
        elif oldk == "zero-but-exists":
            old = ZERO
        else:
            old = ids["c0"]
        newk = rng.choice(["n1", "n2", "n3", "n4", "on-server", "delete", "missing", "not-in-pack"])
        if newk in ("n1", "n2", "n3", "n4"):
            new = ids[newk]
        elif newk == "on-server":
            new = rng.choice([ids["c0"], ids["c1"]])
        elif newk == "delete":
            new = ZERO
        elif newk == "missing":
            new = b"%040x" % rng.getrandbits(160)
        else:
            new = ids[rng.choice(["n1", "n2", "n3"])]
        cmds.append({"ref": ref, "old": old, "new": new, "oldk": oldk, "newk": newk})
    return cmds


def expected(cmds, pre, objects_after, atomic, delete_refs=True):
    """sequential model -> list of bool (should succeed)"""
    cur = dict(pre)
    ok = []
    for c in cmds:
        good = cur.get(c["ref"], ZERO) == c["old"] and (c["new"] == ZERO or c["new"] in objects_after)
        if c["new"] == ZERO and not delete_refs:
            good = False
        if c["new"] == ZERO and cur.get(c["ref"], ZERO) == ZERO:
            good = good  # deleting an absent ref with old=zero: vacuous, either answer leaves it absent
        ok.append(good)
        if good and not atomic:
            if c["new"] == ZERO:
                cur.pop(c["ref"], None)
            else:
                cur[c["ref"]] = c["new"]
    if atomic:
        if all(ok):
            for c in cmds:
                if c["new"] == ZERO:
                    cur.pop(c["ref"], None)
                else:
                    cur[c["ref"]] = c["new"]
        else:
            ok = [False] * len(cmds)
    return ok, cur


def parse_report(data, sideband):
    """-> (unpack status, {ref: status})"""
    from dulwich.protocol import Protocol
    p = Protocol(io.BytesIO(data).read, lambda b: None)
    # skip advertisement
    for _ in p.read_pkt_seq():
        pass
    payload = b""
    if sideband:
        for pkt in p.read_pkt_seq():
            if pkt[:1] == b"\x01":
                payload += pkt[1:]
        p = Protocol(io.BytesIO(payload).read, lambda b: None)
    unpack, refs = None, {}
    try:
        for pkt in p.read_pkt_seq():
            pkt = pkt.rstrip(b"\n")
            if pkt.startswith(b"unpack "):
                unpack = pkt[7:]
            elif pkt.startswith(b"ok "):
                refs[pkt[3:]] = b"ok"
            elif pkt.startswith(b"ng "):
                r, _, why = pkt[3:].partition(b" ")
                refs[r] = why or b"ng"
    except Exception:
        pass
    return unpack, refs


def judge(tag, cmds, pre, post, report, unpack, atomic, objects_after, viol, srv, extra=None):
    want_ok, want_refs = expected(cmds, pre, objects_after, atomic)
    changed = []
    for c, w in zip(cmds, want_ok):
        ref = c["ref"]
        st = report.get(ref)
        reported_ok = st == b"ok"
        now = post.get(ref, ZERO)
        before = pre.get(ref, ZERO)
        kind = "%s/%s" % (c["oldk"], c["newk"])
        if now != before:
            changed.append(ref)
        if reported_ok and now != c["new"]:
            viol.append({"sig": "C06/%s/reported-ok-but-ref-does-not-hold-requested-value/%s" % (tag, kind), "ref": ref.decode(), "cmds": show(cmds)})
        if not reported_ok and now != before:
            viol.append({"sig": "C06/%s/ref-changed-although-not-reported-ok/%s" % (tag, kind), "ref": ref.decode(), "status": repr(st), "cmds": show(cmds)})
        if c["old"] != before and now != before:
            viol.append({"sig": "C06/%s/stale-old-value-yet-ref-was-changed/%s" % (tag, kind), "ref": ref.decode(), "cmds": show(cmds)})
        if c["old"] != before and reported_ok and not (c["new"] == before):
            viol.append({"sig": "C06/%s/stale-old-value-reported-ok/%s" % (tag, kind), "ref": ref.decode(), "cmds": show(cmds)})
        if w and not reported_ok and not atomic and unpack in (b"ok", None) and c["new"] != before:
            viol.append({"sig": "C06/%s/valid-update-rejected/%s" % (tag, kind), "ref": ref.decode(), "status": repr(st), "cmds": show(cmds)})
    for ref, v in post.items():
        r = core.git(["cat-file", "-e", v.decode()], cwd=srv, check=False)
        if r.returncode != 0:
            viol.append({"sig": "C06/%s/server-ref-names-object-the-server-does-not-have" % tag, "ref": ref.decode(), "cmds": show(cmds)})
    if atomic and changed and len(changed) != len([c for c in cmds if post.get(c["ref"], ZERO) != pre.get(c["ref"], ZERO) or c["new"] == pre.get(c["ref"], ZERO)]):
        pass
    if atomic:
        effective = [c for c in cmds if c["new"] != pre.get(c["ref"], ZERO)]
        n_changed = sum(1 for c in effective if post.get(c["ref"], ZERO) != pre.get(c["ref"], ZERO))
        if 0 < n_changed < len(effective):
            viol.append({"sig": "C06/%s/atomic-push-applied-in-part" % tag, "changed": n_changed, "of": len(effective), "cmds": show(cmds)})


def show(cmds):
    return [[c["ref"].decode(), c["oldk"], c["newk"]] for c in cmds]


def objects_after_unpack(pack_news):
    """ids the server has after unpacking a pack for pack_news"""
    cli = _st["cli"]
    objs = set(_st["srv_objects"])
    if pack_news:
        revs = b"".join(n + b"\n" for n in pack_news) + b"".join(b"^" + v + b"\n" for v in _st["pre_refs"].values())
        for l in core.git(["rev-list", "--objects", "--stdin"], cwd=cli, input=revs).stdout.splitlines():
            objs.add(l.split()[0])
    return objs


def run_scripted(case):
    from dulwich.protocol import Protocol, pkt_line
    from dulwich.repo import Repo
    from dulwich.server import DictBackend, ReceivePackHandler
    if "srv" not in _st:
        build_world()
    rng = random.Random(case["seed"])
    viol, stats, nt = [], {}, set()
    for _ in range(case["n"]):
        cmds = gen_commands(rng)
        caps = [b"report-status"]
        atomic = rng.random() < 0.35
        sideband = rng.random() < 0.4
        if atomic:
            caps.append(b"atomic")
        if sideband:
            caps.append(b"side-band-64k")
        caps.append(b"delete-refs")
        if rng.random() < 0.5:
            caps.append(b"ofs-delta")
        ids = _st["ids"]
        in_pack = [c["new"] for c in cmds if c["newk"] in ("n1", "n2", "n3", "n4")]
        pack = make_pack(in_pack, list(_st["pre_refs"].values())) if any(c["new"] != ZERO for c in cmds) else b""
        if not in_pack and any(c["new"] != ZERO for c in cmds):
            pack = make_pack([], [])  # empty pack
        objs_after = objects_after_unpack(in_pack)
        damaged = None
        if pack and rng.random() < 0.15:
            # the pack does not survive the wire: nothing of the push may take effect, whatever the commands need from it
            damaged = rng.choice(["trailer-bit", "truncated", "body-bit"])
            bp = bytearray(pack)
            if damaged == "trailer-bit":
                bp[-1 - rng.randrange(20)] ^= 0x01
            elif damaged == "truncated":
                bp = bp[:max(12, len(bp) - rng.randrange(1, 30))]
            else:
                bp[rng.randrange(12, max(13, len(bp) - 20))] ^= 0x40
            pack = bytes(bp)
        d = _st["scratch"].sub("s%d" % rng.randrange(10 ** 9))
        shutil.rmtree(d)
        shutil.copytree(_st["srv"], d, symlinks=True)
        req = b""
        for i, c in enumerate(cmds):
            line = c["old"] + b" " + c["new"] + b" " + c["ref"]
            if i == 0:
                line += b"\0" + b" ".join(caps)
            req += pkt_line(line + b"\n")
        req += pkt_line(None) + pack
        out = io.BytesIO()
        repo = Repo(d)
        try:
            proto = Protocol(io.BytesIO(req).read, out.write)
            h = ReceivePackHandler(DictBackend({b"/": repo}), [b"/"], proto)
            try:
                h.handle()
                err = None
            except Exception as e:
                err = type(e).__name__ + ": " + str(e)[:100]
        finally:
            repo.close()
        stats["pushes"] = stats.get("pushes", 0) + 1
        post = server_refs(d)
        try:
            unpack, report = parse_report(out.getvalue(), sideband)
        except Exception:
            unpack, report = None, {}      # the handler died before (or while) reporting: judged below through `err` and the refs
        tag = "scripted" + ("/atomic" if atomic else "")
        if err:
            # the handler died: nothing may have changed
            if post != _st["pre_refs"]:
                viol.append({"sig": "C06/%s/handler-raised-%s-after-changing-refs" % (tag, err.split(":")[0]), "cmds": show(cmds), "err": err})
            stats["handler_raised"] = stats.get("handler_raised", 0) + 1
        elif damaged and unpack != b"ok":
            stats["damaged_packs_refused"] = stats.get("damaged_packs_refused", 0) + 1
            if post != _st["pre_refs"]:
                ch = sorted(set(k for k in set(post) | set(_st["pre_refs"]) if post.get(k) != _st["pre_refs"].get(k)))
                kinds = sorted(set("%s/%s" % (c["oldk"], c["newk"]) for c in cmds if c["ref"] in ch))
                viol.append({"sig": "C06/%s/refs-changed-although-the-pack-was-refused/%s" % (tag, "+".join(kinds)[:60]), "damage": damaged, "cmds": show(cmds),
                             "changed": [c_.decode() for c_ in ch]})
            if any(v == b"ok" for v in report.values()):
                viol.append({"sig": "C06/%s/command-reported-ok-although-the-pack-was-refused" % tag, "damage": damaged, "cmds": show(cmds)})
        else:
            if damaged:
                stats["damaged_pack_accepted"] = stats.get("damaged_pack_accepted", 0) + 1     # e.g. the flipped bit hit nothing that is checked: judged as usual
            judge(tag, cmds, _st["pre_refs"], post, report, unpack, atomic, objs_after, viol, d)
        fs = core.git(["fsck", "--connectivity-only", "--no-dangling", "--no-progress"], cwd=d, check=False)
        if fs.returncode != 0:
            viol.append({"sig": "C06/%s/server-fails-git-fsck-connectivity-after-push" % tag, "cmds": show(cmds), "out": (fs.stderr + fs.stdout).decode(errors="replace")[-200:]})
        shutil.rmtree(d, ignore_errors=True)
        nt.add("cmds:%s:%s:%s" % (atomic, sideband, ",".join("%s/%s" % (c["oldk"], c["newk"]) for c in cmds)))
    return {"viol": dedupe(viol), "stats": stats, "nontrivial": sorted(nt), "evaluations": case["n"]}


def dedupe(viol):
    seen, out = set(), []
    for v in viol:
        if v["sig"] not in seen:
            seen.add(v["sig"])
            out.append(v)
    return out


def run_gitpush(case):
    """C git as client against a dulwich TCP server on loopback."""
    from dulwich.server import DictBackend, TCPGitServer
    from dulwich.repo import Repo
    if "srv" not in _st:
        build_world()
    rng = random.Random(case["seed"])
    viol, stats, nt = [], {}, set()
    ids = _st["ids"]
    for _ in range(case["n"]):
        d = _st["scratch"].sub("g%d" % rng.randrange(10 ** 9))
        shutil.rmtree(d)
        shutil.copytree(_st["srv"], d, symlinks=True)
        repo = Repo(d)
        server = TCPGitServer(DictBackend({b"/": repo}), b"127.0.0.1", 0)
        port = server.server_address[1]
        th = threading.Thread(target=server.serve_forever, kwargs={"poll_interval": 0.05}, daemon=True)
        th.start()
        try:
            atomic = rng.random() < 0.4
            specs, cmds = [], []
            used = set()
            for _k in range(rng.choice([1, 2, 3])):
                ref = rng.choice([r for r in (b"refs/heads/master", b"refs/heads/b", b"refs/heads/loose", b"refs/heads/both", b"refs/heads/newbranch", b"refs/tags/nt")
                                  if r not in used])
                used.add(ref)
                newk = rng.choice(["n1", "n2", "n3", "n4", "delete"])
                cur = _st["pre_refs"].get(ref, ZERO)
                lease = rng.choice(["right", "stale", None])
                if newk == "delete":
                    specs.append(":" + ref.decode())
                    new = ZERO
                else:
                    specs.append("+" + ids[newk].decode() + ":" + ref.decode())
                    new = ids[newk]
                old = cur if lease != "stale" else ids["c0"] if cur != ids["c0"] else ids["c1"]
                cmds.append({"ref": ref, "old": old, "new": new, "oldk": lease or "none", "newk": newk, "lease": lease})
            args = ["push", "--porcelain"] + (["--atomic"] if atomic else [])
            for c in cmds:
                if c["lease"]:
                    args.append("--force-with-lease=%s:%s" % (c["ref"].decode(), c["old"].decode() if c["old"] != ZERO else ""))
            args += ["git://127.0.0.1:%d/" % port] + specs
            r = core.git(args, cwd=_st["cli"], check=False, timeout=60)
            stats["git_pushes"] = stats.get("git_pushes", 0) + 1
            post = server_refs(d)
            # git's own per-ref verdict from --porcelain: lines "<flag>\t<from>:<to>\t<summary>"
            for line in r.stdout.splitlines():
                p = line.split(b"\t")
                if len(p) >= 3 and b":" in p[1]:
                    to = p[1].split(b":", 1)[1]
                    flag = p[0].strip()
                    c = [x for x in cmds if x["ref"] == to]
                    if not c:
                        continue
                    c = c[0]
                    now = post.get(to, ZERO)
                    before = _st["pre_refs"].get(to, ZERO)
                    if flag in (b"", b"+", b"*", b"-") and now != c["new"]:
                        viol.append({"sig": "C06/gitpush/git-told-success-but-ref-does-not-hold-value/%s" % c["newk"], "line": line.decode(errors="replace")})
                    if flag == b"!" and now != before:
                        viol.append({"sig": "C06/gitpush/git-told-rejected-but-ref-changed/%s/%s" % (c["oldk"], c["newk"]), "line": line.decode(errors="replace"),
                                     "atomic": atomic})
            if atomic:
                eff = [c for c in cmds if c["new"] != _st["pre_refs"].get(c["ref"], ZERO)]
                nch = sum(1 for c in eff if post.get(c["ref"], ZERO) != _st["pre_refs"].get(c["ref"], ZERO))
                if 0 < nch < len(eff):
                    viol.append({"sig": "C06/gitpush/atomic-push-applied-in-part", "cmds": show(cmds), "out": r.stdout.decode(errors="replace")[-300:]})
            for ref, v in post.items():
                if core.git(["cat-file", "-e", v.decode()], cwd=d, check=False).returncode != 0:
                    viol.append({"sig": "C06/gitpush/server-ref-names-missing-object"})
            nt.add("gp:%s:%s" % (atomic, ",".join("%s/%s" % (c["oldk"], c["newk"]) for c in cmds)))
        finally:
            server.shutdown()
            server.server_close()
            th.join(5)
            repo.close()
            shutil.rmtree(d, ignore_errors=True)
    return {"viol": dedupe(viol), "stats": stats, "nontrivial": sorted(nt), "evaluations": case["n"]}


def hot(path):
    return path.startswith("refs") or path.startswith("packed-refs") or path == "HEAD" or (path.endswith(".lock") and "objects" not in path)


def run_race(case):
    """Two pushers race on the same ref (scripted requests into two handlers / two LocalGitClient.send_pack)."""
    from dulwich.client import LocalGitClient
    from dulwich.protocol import Protocol, pkt_line
    from dulwich.repo import Repo
    from dulwich.server import DictBackend, ReceivePackHandler
    if "srv" not in _st:
        build_world()
    rng = random.Random(case["seed"])
    ids = _st["ids"]
    base = _st["scratch"].sub("r%d" % rng.randrange(10 ** 9))
    viol, stats = [], {"schedules": 0, "inconclusive_runs": 0}
    runno = [0]
    ref = {"loose": b"refs/heads/loose", "packed": b"refs/heads/master", "new": b"refs/heads/created-in-race", "new-nested": b"refs/heads/race/nested",
           "new-tag": b"refs/tags/race"}[case["ref"]]
    cur = _st["pre_refs"].get(ref, ZERO)
    news = [ids["n1"], ids["n4"]]
    packs = [make_pack([n], list(_st["pre_refs"].values())) for n in news]
    n_inter = 0

    def make_run(prefix):
        runno[0] += 1
        root = os.path.join(base, "x%d" % runno[0])
        shutil.copytree(_st["srv"], root, symlinks=True)
        layer = fsint.Layer(root, hot=hot)
        reports = {}
        seen = {}

        def mk(i):
            def body():
                if case["path"] == "handler":
                    req = pkt_line(cur + b" " + news[i] + b" " + ref + b"\0report-status\n") + pkt_line(None) + packs[i]
                    out = io.BytesIO()
                    repo = Repo(root)
                    try:
                        ReceivePackHandler(DictBackend({b"/": repo}), [b"/"], Protocol(io.BytesIO(req).read, out.write)).handle()
                    finally:
                        repo.close()
                    unpack, rep = parse_report(out.getvalue(), False)
                    reports[i] = rep.get(ref)
                else:
                    src = Repo(_st["cli"])
                    try:
                        def update_refs(refs):
                            seen[i] = refs.get(ref, ZERO)       # the old value this pusher's compare-and-swap is entitled to use
                            return {ref: news[i]}

                        def gen(have, want, ofs_delta=False, progress=None):
                            return src.generate_pack_data(have, want, ofs_delta=ofs_delta, progress=progress)
                        res = LocalGitClient().send_pack(root, update_refs, gen)
                        reports[i] = b"ok" if not (res.ref_status or {}).get(ref) else b"ng"
                    finally:
                        src.close()
            return body
        actors = {"P0": mk(0), "P1": mk(1)}
        fsint.install(layer)
        try:
            run = sched.Run(layer, actors, prefix=prefix, step_cap=30000)
            run.execute()
        finally:
            fsint.uninstall()
        run.reports = reports
        run.seen = seen
        run.root = root
        return run

    for kind, prefix, run in sched.explore(make_run, case["max_runs"], 2, rng):
        if kind == "end":
            break
        if kind == "inconclusive":
            stats["inconclusive_runs"] += 1
            continue
        stats["schedules"] += 1
        n_inter += 1
        post = server_refs(run.root)
        final = post.get(ref, ZERO)
        oks = [i for i in (0, 1) if run.reports.get(i) == b"ok"]
        tag = "race/%s/%s" % (case["path"], case["ref"])
        for name, st in run.actors.items():
            if st.exc is not None and not isinstance(st.exc, Exception.__class__):
                pass
        if len(oks) == 2 and case["path"] == "handler":
            # both requests name the same old value: in any serial order the second one is stale
            viol.append({"sig": "C06/%s/both-racing-pushers-reported-ok" % tag, "schedule": run.choices()[:200]})
        if len(oks) == 2 and case["path"] == "local":
            # the local client takes its old value from the target when it lists the refs, so two successes are legal exactly when they
            # form a serial order: the first saw the initial value, the second saw the first one's value, and the ref ends at the second's
            legal = any(run.seen.get(x) == cur and run.seen.get(y) == news[x] and final == news[y] for x, y in ((0, 1), (1, 0)))
            if not legal:
                viol.append({"sig": "C06/%s/both-pushers-reported-ok-but-no-serial-order-explains-it" % tag, "schedule": run.choices()[:200],
                             "saw": [core.short(run.seen.get(0), 12), core.short(run.seen.get(1), 12)], "final": core.short(final, 12)})
        if len(oks) == 1 and final != news[oks[0]]:
            viol.append({"sig": "C06/%s/winner-reported-ok-but-ref-holds-other-value" % tag, "schedule": run.choices()[:200]})
        if len(oks) == 0 and final != cur:
            viol.append({"sig": "C06/%s/ref-changed-but-nobody-was-told-ok" % tag, "schedule": run.choices()[:200]})
        shutil.rmtree(run.root, ignore_errors=True)
        if len(viol) > 6:
            break
    shutil.rmtree(base, ignore_errors=True)
    return {"viol": dedupe(viol), "stats": stats, "evaluations": stats["schedules"],
            "nontrivial": ["race:%s:%s:%d" % (case["path"], case["ref"], i) for i in range(min(n_inter, 80))]}


def worker_exit():
    if "scratch" in _st:
        _st["scratch"].cleanup()


def run_case(case):
    return {"scripted": run_scripted, "gitpush": run_gitpush, "race": run_race}[case["kind"]](case)


def main(ctx):
    cases = []
    for i in range(ctx.budget(60, 600)):
        cases.append({"kind": "scripted", "seed": "%d/s/%d" % (ctx.seed, i), "n": 20})
    for i in range(ctx.budget(16, 160)):
        cases.append({"kind": "gitpush", "seed": "%d/g/%d" % (ctx.seed, i), "n": 6})
    for path in ("handler", "local"):
        for ref in ("loose", "packed", "new", "new-nested", "new-tag"):
            cases.append({"kind": "race", "seed": "%d/r/%s/%s" % (ctx.seed, path, ref), "path": path, "ref": ref, "max_runs": ctx.budget(150, 1500)})
    ctx.rule = ("command lists of 1..3 commands over 6 refs (loose, packed, new, nested) with old in {right, stale, zero-but-exists, "
                "nonzero-but-absent} x new in {4 new commits, object already on server, delete, missing object, not in pack} x {atomic, "
                "side-band-64k, ofs-delta}; git push [--atomic] [--force-with-lease right/stale] against the dulwich TCP server; two racing "
                "pushers under the scheduler (handler and LocalGitClient paths; loose, packed and not yet existing refs incl. nested and tag). non-trivial = distinct (capability set, "
                "command kinds) / distinct interleaving.")
    ctx.assumptions = ["sequential receive-pack model: command succeeds iff current==old (zero=absent) and new is zero or present after unpack; atomic = all or none",
                       "server refs are read back with C git"]

    def on_result(case, out):
        if out["status"] != "ok":
            if out["status"] == "timeout":
                ctx.inconc("timeout %s" % case["kind"])
            else:
                ctx.violation("C06/%s/harness-%s/%s" % (case["kind"], out["status"], out.get("exc")), case, out)
            return
        res = out["result"]
        ctx.merge(res)
        for v in res.get("viol", []):
            ctx.violation(v["sig"], case, v)
        ctx.sample(case, case["kind"])

    pool.pmap("vt.checks.c06", cases, timeout=1800, on_result=on_result, ext_table=getattr(ctx, "ext_table", None))
    if not ctx.stats["pushes"] or not ctx.stats["git_pushes"] or not ctx.stats["schedules"]:
        return "monitors never reached"
    return None
