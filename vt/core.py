"""Core of the verification harness: run context, evidence, known findings, replay files,
extension builder/loader, hermetic git wrapper.

Everything here is used from checks in vt/checks/cXX.py.  A check exposes
    main(ctx)        -- generate cases, run them (usually through vt.pool), feed ctx
    run_case(case)   -- execute one JSON-able case, return {"viol": [...], "stats": {...}, ...}
"""
from __future__ import annotations

import collections
import fnmatch
import hashlib
import importlib.abc
import importlib.machinery
import importlib.util
import json
import os
import random
import shutil
import subprocess
import sys
import tempfile
import time

ROOT = os.path.dirname(os.path.dirname(os.path.abspath(__file__)))
REPO = os.path.abspath(os.environ.get("VERIF_REPO", "/repo"))
DEPS = os.path.join(ROOT, ".deps")
BUILD = os.path.join(ROOT, ".build")
PY = "/venv/bin/python"

EXT_MODULES = {
    "dulwich._objects": "libobjects_py.so",
    "dulwich._pack": "libpack_py.so",
    "dulwich._diff_tree": "libdiff_tree_py.so",
}


# ----------------------------------------------------------------------------------------
# small helpers
# ----------------------------------------------------------------------------------------
def hx(b: bytes) -> str:
    return b.hex()


def unhx(s: str) -> bytes:
    return bytes.fromhex(s)


def short(obj, n=300):
    s = obj if isinstance(obj, str) else repr(obj)
    return s if len(s) <= n else s[:n] + "...(%d)" % len(s)


def canon_hash(obj) -> str:
    return hashlib.sha1(json.dumps(obj, sort_keys=True, default=repr).encode()).hexdigest()[:16]


def target_dir(profile_tag="") -> str:
    tag = hashlib.sha1(REPO.encode()).hexdigest()[:8] if REPO != "/repo" else "repo"
    return os.path.join(BUILD, "target-" + tag + profile_tag)


# ----------------------------------------------------------------------------------------
# setup: third-party deps + rust extensions rebuilt from the working tree
# ----------------------------------------------------------------------------------------
def ensure_deps():
    if os.path.isdir(os.path.join(DEPS, "icontract")):
        return
    os.makedirs(DEPS, exist_ok=True)
    subprocess.run(
        [PY, "-m", "pip", "install", "-q", "--no-index", "--find-links", "/opt/veriftools/wheels",
         "--target", DEPS, "icontract", "deal"],
        check=False, stdout=subprocess.DEVNULL, stderr=subprocess.DEVNULL, timeout=300)


def build_ext(profile="dev", sanitizer=None, quiet=True) -> dict:
    """cargo build --offline of /repo's crates into /verif/.build; returns {module: so path}.
    Returns {} (and records why) if cargo is unavailable or the build fails."""
    tag = "" if profile == "dev" else "-" + profile
    env = dict(os.environ)
    env.update(CARGO_NET_OFFLINE="true")
    cmd = ["cargo", "build", "--offline", "--manifest-path", os.path.join(REPO, "Cargo.toml")]
    sub = "debug"
    if profile == "release":
        cmd.append("--release")
        sub = "release"
    if sanitizer == "address":
        tag += "-asan"
        tc = [d for d in os.listdir(os.path.expanduser("~/.rustup/toolchains")) if d.startswith("nightly")]
        if not tc:
            return {}
        env["PATH"] = os.path.expanduser("~/.rustup/toolchains/%s/bin:" % tc[0]) + env["PATH"]
        env["RUSTFLAGS"] = "-Zsanitizer=address"
        cmd += ["--target", "x86_64-unknown-linux-gnu"]
        sub = "x86_64-unknown-linux-gnu/" + sub
    tdir = target_dir(tag)
    env["CARGO_TARGET_DIR"] = tdir
    try:
        r = subprocess.run(cmd, env=env, stdout=subprocess.PIPE, stderr=subprocess.STDOUT, timeout=900)
    except (OSError, subprocess.TimeoutExpired) as e:
        if not quiet:
            print("cargo build failed:", e)
        return {}
    if r.returncode != 0:
        if not quiet:
            print(r.stdout.decode(errors="replace")[-3000:])
        return {}
    out = {}
    for mod, so in EXT_MODULES.items():
        p = os.path.join(tdir, sub, so)
        if os.path.exists(p):
            out[mod] = p
    return out


class _ExtFinder(importlib.abc.MetaPathFinder):
    def __init__(self, table, block=False):
        self.table = table
        self.block = block

    def find_spec(self, name, path=None, target=None):
        if name in EXT_MODULES:
            if self.block:
                raise ImportError("extension %s blocked by harness" % name)
            p = self.table.get(name)
            if p:
                loader = importlib.machinery.ExtensionFileLoader(name, p)
                return importlib.util.spec_from_file_location(name, p, loader=loader)
        return None


def install_ext(table=None, block=False):
    """Make `import dulwich._pack` etc. load the freshly built .so (or fail when block=True).
    Must be called before dulwich is imported."""
    if REPO not in sys.path[:2]:
        sys.path.insert(0, REPO)
    if table is None:
        env = os.environ.get("VERIF_EXT_TABLE")
        table = json.loads(env) if env else {}
    if os.environ.get("VERIF_EXT_BLOCK") == "1":
        block = True
    sys.meta_path.insert(0, _ExtFinder(table, block))
    if DEPS not in sys.path:
        sys.path.append(DEPS)


# ----------------------------------------------------------------------------------------
# hermetic C git
# ----------------------------------------------------------------------------------------
_GIT_ENV = None


def git_env(home=None):
    global _GIT_ENV
    if _GIT_ENV is None:
        e = {k: v for k, v in os.environ.items() if not k.startswith("GIT_")}
        e.update(
            GIT_CONFIG_NOSYSTEM="1", GIT_CONFIG_GLOBAL="/dev/null", GIT_TERMINAL_PROMPT="0",
            GIT_AUTHOR_NAME="A U Thor", GIT_AUTHOR_EMAIL="author@example.com",
            GIT_COMMITTER_NAME="C O Mitter", GIT_COMMITTER_EMAIL="committer@example.com",
            GIT_AUTHOR_DATE="1700000000 +0000", GIT_COMMITTER_DATE="1700000000 +0000",
            TZ="UTC", LC_ALL="C", GIT_ADVICE="0", GIT_OPTIONAL_LOCKS="0",
            GIT_GRAFT_FILE="/dev/null",     # the reference git never follows info/grafts: closures are those of the real history
        )
        e["HOME"] = home or "/nonexistent"
        _GIT_ENV = e
    return _GIT_ENV


GIT_BASE = ["git", "-c", "gc.auto=0", "-c", "maintenance.auto=false", "-c", "core.fsync=none",
            "-c", "advice.detachedHead=false", "-c", "init.defaultBranch=master",
            "-c", "safe.directory=*"]


def git(args, cwd=None, input=None, check=True, timeout=120, env=None, extra_cfg=()):
    cmd = list(GIT_BASE)
    for c in extra_cfg:
        cmd += ["-c", c]
    cmd += list(args)
    e = git_env()
    if env:
        e = dict(e)
        e.update(env)
    r = subprocess.run(cmd, cwd=cwd, input=input, stdout=subprocess.PIPE, stderr=subprocess.PIPE,
                       env=e, timeout=timeout)
    if check and r.returncode != 0:
        raise GitError("git %s -> %d: %s" % (" ".join(map(str, args[:6])), r.returncode,
                                             r.stderr.decode(errors="replace")[-500:]))
    return r


class GitError(Exception):
    pass


# ----------------------------------------------------------------------------------------
# scratch directories
# ----------------------------------------------------------------------------------------
def scratch_root() -> str:
    base = os.environ.get("VERIF_SCRATCH")
    if base:
        os.makedirs(base, exist_ok=True)
        return base
    return tempfile.gettempdir()


class Scratch:
    """Per-process scratch directory removed at exit / context end."""

    def __init__(self, prefix="vt-"):
        self.path = tempfile.mkdtemp(prefix=prefix, dir=scratch_root())
        self.n = 0

    def sub(self, name=None) -> str:
        self.n += 1
        p = os.path.join(self.path, name or "d%d" % self.n)
        os.makedirs(p, exist_ok=True)
        return p

    def cleanup(self):
        shutil.rmtree(self.path, ignore_errors=True)

    def __enter__(self):
        return self

    def __exit__(self, *a):
        self.cleanup()


# ----------------------------------------------------------------------------------------
# known findings
# ----------------------------------------------------------------------------------------
def load_known(prop):
    p = os.path.join(ROOT, "known_findings.json")
    try:
        data = json.load(open(p))
    except FileNotFoundError:
        return []
    return [e for e in data.get("findings", []) if e.get("property") == prop and e.get("status") == "known"]


# ----------------------------------------------------------------------------------------
# run context
# ----------------------------------------------------------------------------------------
class Ctx:
    def __init__(self, prop, tier="quick", seed=0, level="exploration"):
        self.prop = prop
        self.tier = tier
        self.seed = seed
        self.level = level
        self.rng = random.Random("%s/%d" % (prop, seed))
        self.t0 = time.time()
        self.stats = collections.Counter()
        self.info = {}
        self.nontrivial = set()
        self.samples = []
        self.sample_cap = 8
        self.violations = []          # unlisted
        self.known_hits = collections.Counter()
        self.sig_counts = collections.Counter()
        self.known = load_known(prop)
        self.inconclusive = []
        self.rule = ""
        self.explanation = ""
        self.assumptions = []
        self.exhaustive = None
        self.evaluations = 0
        self._sample_keys = set()

    # -- budgets ------------------------------------------------------------------------
    @property
    def thorough(self):
        return self.tier == "thorough"

    def budget(self, quick, thorough=None):
        if thorough is None:
            thorough = quick * 10
        v = thorough if self.thorough else quick
        scale = float(os.environ.get("VERIF_SCALE", "1"))
        return max(1, int(v * scale))

    def sub_rng(self, *key):
        return random.Random("%s/%d/%s" % (self.prop, self.seed, "/".join(map(str, key))))

    # -- recording ----------------------------------------------------------------------
    def count(self, key, n=1):
        self.stats[key] += n

    def evaluated(self, n=1):
        self.evaluations += n

    def nontriv(self, key):
        self.nontrivial.add(key if isinstance(key, str) and len(key) <= 40 else canon_hash(key))

    def sample(self, obj, kind=None):
        k = kind or "x"
        if len(self.samples) >= self.sample_cap:
            return
        if sum(1 for s in self.samples if s.get("kind") == k) >= 2:
            return
        self.samples.append({"kind": k, "case": _shrink(obj)})

    def merge(self, res):
        """Fold one run_case() result (dict) into the context; returns list of unlisted sigs."""
        if not isinstance(res, dict):
            return
        for k, v in (res.get("stats") or {}).items():
            self.stats[k] += v
        for k in res.get("nontrivial") or ():
            self.nontriv(k)
        self.evaluations += res.get("evaluations", 0)

    def violation(self, sig, case, detail=None):
        """sig: mechanism signature string.  case: JSON-able replayable case."""
        for e in self.known:
            if fnmatch.fnmatchcase(sig, e["key"]):
                self.known_hits[e["key"]] += 1
                return False
        self.sig_counts[sig] += 1
        if self.sig_counts[sig] <= 1 and len(self.violations) < 500:
            self.violations.append({"sig": sig, "case": case, "detail": detail})
        self.stats["violations_total"] += 1
        return True

    def inconc(self, reason):
        if len(self.inconclusive) < 50:
            self.inconclusive.append(reason)
        self.stats["inconclusive_cases"] += 1

    # -- end of run ---------------------------------------------------------------------
    def finish(self, fatal_inconclusive=None) -> int:
        evdir = os.environ.get("VERIF_EVIDENCE_DIR") or os.path.join(ROOT, "evidence")
        os.makedirs(evdir, exist_ok=True)
        wall = time.time() - self.t0
        for e in self.known:
            n = self.known_hits.get(e["key"], 0)
            if n:
                print("KNOWN-FINDING: property=%s %s [key=%s, %d witness(es) this run]" % (
                    self.prop, e["what_fails"], e["key"], n))
        rc = 0
        seen = set()
        nprinted = 0
        for v in self.violations:
            if v["sig"] in seen:
                continue
            seen.add(v["sig"])
            path = write_replay(self.prop, v)
            if nprinted < 20:
                print("VIOLATION property=%s replay=%s sig=%s detail=%s" % (
                    self.prop, path, v["sig"], short(v.get("detail"), 400)))
                nprinted += 1
            rc = 1
        if rc == 0 and fatal_inconclusive:
            print("INCONCLUSIVE property=%s reason=%s" % (self.prop, fatal_inconclusive))
            rc = 2
        cov = {
            "evaluations": int(self.evaluations),
            "distinct_nontrivial": len(self.nontrivial),
            "rule": self.rule,
            "samples": self.samples or [{"kind": "none", "case": None}],
            "explanation": self.explanation,
            "observed": {k: self.stats[k] for k in sorted(self.stats)},
            "known_finding_hits": dict(self.known_hits),
            "inconclusive_cases": self.stats.get("inconclusive_cases", 0),
            "inconclusive_examples": self.inconclusive[:5],
            "distinct_violation_signatures": {k: self.sig_counts[k] for k in sorted(seen)},
        }
        cov.update(self.info)
        if self.exhaustive is not None:
            cov["exhaustive"] = bool(self.exhaustive)
        ev = {
            "property_id": self.prop, "tier": self.tier, "seed": int(self.seed), "level": self.level,
            "coverage": cov, "assumptions": self.assumptions, "wall_s": round(wall, 2),
            "violations": len(seen),
            "verdict": "violated" if rc == 1 else "inconclusive" if rc == 2 else "held_on_observed",
            "repo_head": _repo_head(),
        }
        with open(os.path.join(evdir, self.prop + ".json"), "w") as f:
            json.dump(ev, f, indent=1, sort_keys=True, default=repr)
            f.write("\n")
        print("%s tier=%s seed=%d evaluations=%d distinct_nontrivial=%d known=%d violations=%d wall=%.1fs -> %s" % (
            self.prop, self.tier, self.seed, self.evaluations, len(self.nontrivial),
            sum(self.known_hits.values()), len(seen), wall, ev["verdict"]))
        return rc


def _repo_head():
    try:
        r = subprocess.run(["git", "-C", REPO, "rev-parse", "--short", "HEAD"], stdout=subprocess.PIPE,
                           stderr=subprocess.DEVNULL, timeout=10)
        d = subprocess.run(["git", "-C", REPO, "status", "--porcelain", "--untracked-files=no"],
                           stdout=subprocess.PIPE, stderr=subprocess.DEVNULL, timeout=20)
        return r.stdout.decode().strip() + ("+dirty" if d.stdout.strip() else "")
    except Exception:
        return "?"


def _shrink(obj, depth=0):
    if isinstance(obj, dict):
        return {str(k): _shrink(v, depth + 1) for k, v in list(obj.items())[:30]}
    if isinstance(obj, (list, tuple)):
        out = [_shrink(v, depth + 1) for v in obj[:30]]
        if len(obj) > 30:
            out.append("...(%d items)" % len(obj))
        return out
    if isinstance(obj, bytes):
        obj = obj.hex()
    if isinstance(obj, str) and len(obj) > 400:
        return obj[:400] + "...(%d chars)" % len(obj)
    if isinstance(obj, (str, int, float, bool)) or obj is None:
        return obj
    return repr(obj)[:200]


def write_replay(prop, v) -> str:
    d = os.environ.get("VERIF_REPLAY_DIR") or os.path.join(ROOT, "replays")
    os.makedirs(d, exist_ok=True)
    h = canon_hash([v["sig"], v["case"]])
    p = os.path.join(d, "%s-%s.json" % (prop, h))
    with open(p, "w") as f:
        json.dump({"property": prop, "sig": v["sig"], "case": v["case"], "detail": v.get("detail")},
                  f, indent=1, default=repr)
    return p
