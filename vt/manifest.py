"""Generates /verif/MANIFEST.json from the table below:  python -m vt.manifest"""
import json
import os

ROOT = os.path.dirname(os.path.dirname(os.path.abspath(__file__)))

# id -> (category, technique, level text, level_note, design_ref)
CHECKS = {}
NOT_YET = {}


def check(pid, category, technique, text, note, ref):
    CHECKS[pid] = (category, technique, text, note, ref)


check("C20", "exploration",
      "runtime differential monitor: exhaustive value enumeration through the real writer/reader, git config as independent observer, shadow-model monitor over operation sequences",
      "Every value of length <=4 (thorough <=5) over a 16-symbol alphabet holding every special character is written by "
      "the real ConfigFile and read back by dulwich and by `git config --list -z`; random names/subsections/multi-values, "
      "git-written files read by dulwich, and set/add/remove/reload sequences against a shadow multi-dict (values recur: a small pool "
      "and the key's current values; focused sequences on one or two names so multi-valued keys are set, re-added and removed). Decides the "
      "property on the executions produced; exhaustive only inside the stated sub-space.",
      "git 2.39.5 as reference reader/writer; values git cannot itself round-trip are excluded from the interop comparison only",
      "DESIGN.md §5 C20")

check("C19", "exploration",
      "runtime monitors on the real encoders/decoders: frame validator on every emitted stream, chunking adversary feeding recv()/parse() every partition of short streams, independent reference decoder, exhaustive hostile length prefixes, git upload-pack as peer",
      "Every stream the real pkt_line/write_pkt_line/BufferedPktLineWriter/write_sideband emit is validated frame by frame; "
      "Protocol, Protocol+eof/unread, ReceivableProtocol and PktLineParser decode it under all 2^(n-1) read partitions "
      "(short streams) or boundary-straddling partitions (long), and must return the reference payload sequence. All 65536 hex "
      "prefixes x 4 payload lengths and non-hex classes must give frames or GitProtocolError/HangupException. report-status pkt-lines "
      "nested in side-band channel 1 are cut into frames at every point (and by dulwich's own write_sideband for multi-frame reports) and "
      "decoded by the client's receive-pack tail. Exhaustive only inside those sub-spaces.",
      "independent reference decoder in the check; git 2.39.5 upload-pack as peer; frames over 65520 bytes count as malformed only when emitted",
      "DESIGN.md §5 C19")

check("C13", "exploration",
      "runtime differential monitor: real find_merge_base/can_fast_forward/independent/find_octopus_base/Walker on exhaustively enumerated DAG x clock spaces against an ancestor-bitset oracle that is itself validated against git merge-base/rev-list on every run",
      "All DAGs on n<=4 nodes x all 75 weak orders of timestamps x all query pairs/triples/include sets/excludes/walker options "
      "(thorough: n=5, all 1024 DAGs x 541 weak orders for pairs), random DAGs to 300 commits under 7 clock modes, 4800 (thorough 64000) "
      "ladder DAGs (chain + shortcut merges, 6-14 commits) under fully permuted/tied/reversed clocks with all pair queries, and on-disk "
      "copies made by git fast-import with no/git/dulwich commit-graph. Exhaustive only inside the stated bounds.",
      "ancestor-bitset oracle (validated against git 2.39.5 each run); excludes under skewed clocks only checked for duplicates/containment as the statement exempts them",
      "DESIGN.md §5 C13")

check("C03", "exploration",
      "sandboxed runtime monitoring of the real delta decoders/encoders (Python and freshly built Rust) under a kernel-enforced allocation budget (RLIMIT_AS per call), exhaustive short deltas + structured hostile deltas against a patch-delta.c reference oracle; encoder x decoder matrix incl. C git via packs",
      "Every byte string of length <=5 (thorough <=6) over an 11-symbol opcode alphabet x 4 bases, plus structured hostile deltas, is "
      "applied by both dulwich decoders in crash-isolated workers whose address-space limit is lowered around each call; outcome "
      "class (value / ApplyDeltaError / other exception / panic / abort / MemoryError / hang) and output bytes are judged against an "
      "independent transcription of git's patch-delta.c (incl. size headers of N + k*2^64 in 10+ byte varints). Generated (base,target) pairs run through python/rust/git encoders x "
      "python/rust/git decoders. Exhaustive only in the stated sub-space.",
      "reference decoder transcribes patch-delta.c and is cross-checked against C git in the same run; deltas shorter than git's DELTA_SIZE_MIN are not offered to the git decoder; lenient acceptance (invalid trailing op skipped) is tolerated when the output has the declared length and is composed of the valid ops",
      "DESIGN.md §5 C03")

check("C15", "exploration",
      "differential runtime monitor over the Python/Rust twin functions in crash-isolated workers (panics, aborts, allocation failures observed), plus a repository-level battery run with the rebuilt extensions and with the extensions blocked",
      "parse_tree, sorted_tree_items, apply_delta, create_delta, bisect_find_sha, _merge_entries, _is_tree, _count_blocks are called "
      "pairwise (Python function object kept by dulwich vs. the extension rebuilt from the working tree) on generated inputs covering the "
      "quantifier's classes (odd mode spellings, missing terminators, both id lengths, prefix-related names, the C03 hostile delta corpus, "
      "index offsets to 2^40, block boundaries); outcome class and values must agree. Decides the property on the inputs generated.",
      "argument types outside the documented ones, names containing '/' or NUL and id lengths other than 20/32 are outside the statement and not generated; dev-profile build of the crates",
      "DESIGN.md §5 C15")

check("C16", "exploration",
      "online reference-model monitor over generated ref-operation sequences on the real files/dict/reftable containers with C git listing the same directory; exhaustive ref-name sweep against a transcription of git's check_refname_format confirmed by the real binary",
      "After every one of 25 operations per sequence (set/add/delete conditional and unconditional, symrefs, pack_refs, re-open; 10 names incl. "
      "a directory/file pair, a ref directly below refs/, symref chains, HEAD; and a conflict-dense universe with two siblings and a second level below the conflicting name) return value, exception class and the full observable state of the real container are "
      "compared with a map model; git for-each-ref/symbolic-ref list the files backend every few steps. check_ref_format is compared on ALL "
      "byte strings of length <=4 (thorough 5) over a 20-symbol alphabet; symref chains of every length 1..8 (through HEAD, packed, to "
      "present/absent/tag targets) read, listed and written through against what C git resolves; a second long-lived handle on the same "
      "directory acts for stretches and is observed sparsely (stale caches); dict/reftable also on sequences that create symbolic refs "
      "(dangling targets included); directories left under refs/ are attributed to the operation that left them. Decides the property on the sequences generated.",
      "sequential map model of the documented contract; git 2.39.5; reftable vs git not compared (no reftable in git 2.39); NamespacedRefsContainer, peeled values and locked_ref not yet driven",
      "DESIGN.md §5 C16")

check("C01", "exploration",
      "runtime invariant monitor (name = hash of serialised content, bytes = independent reference serialiser over public getters) across generated setter/observation sequences, parse/print round trips in odd layouts, and C git as independent hasher/reader (hash-object, cat-file, mktree, commit-tree, fsck)",
      "Objects built from generated field records (all four types, identities with odd bytes, times to 2^64, every +-HHMM spelling incl. -0000 "
      "and the legacy --700, 0..8 parents, encoding, folded extra headers, mergetags, PGP/SSH signatures, missing messages/blank lines, "
      "prefix-colliding tree names) are checked after every setter and at generated observation points; parsed texts are re-serialised "
      "unchanged and after one-field edits; git hashes, reads and rebuilds the same logical objects; the same bytes handed out under a "
      "trusted or verified SHA-1 / SHA-256 name must answer get_id() of either algorithm with that hash; one live instance per type is "
      "re-filled through set_raw_string/set_raw_chunks with other texts (nothing of the earlier text may survive) and then edited. Decides the property on the inputs generated.",
      "reference serialiser written from the git format documentation; git 2.39.5; in-place mutation of a returned list counts only when the list is assigned back through the setter",
      "DESIGN.md §5 C01")

check("C12", "exploration",
      "runtime reference-model monitor: flat listings as model; every TreeChange list produced by the real tree_changes (all flag variants, RenameDetector, path filters, Python and Rust twins) is interpreted as an edit on flatten(a) and must give flatten(b); ids and raw diffs compared with git write-tree / diff-tree",
      "Every listing of <=2 (thorough 3) entries over 9 conflict-prone names x 4 modes is paired with sampled partners, plus random larger pairs "
      "with mode-only/type-only changes, file<->directory swaps and emptied directories: commit_tree/flatten/lookup inverse, canonical "
      "entry order of every subtree, diff soundness+completeness+uniqueness under 7 flag variants, path filters vs the definitional "
      "restriction, commit_tree_changes vs rebuild; one RenameDetector reused across thousands of diffs with max_files 1..3 and near-copy "
      "blobs; git write-tree ids and git diff-tree raw output on random pairs; a read log on the store (nothing at or below a subtree "
      "identical in both trees may be read, with and without rename detection); a type change is delete+add unless change_type_same.",
      "flat-listing reference; with RenameDetector only soundness invariants are demanded; git 2.39.5",
      "DESIGN.md §5 C12")

check("C11", "exploration",
      "runtime differential monitor: real Index.write/read on generated entry sets against an independent index codec (validated on git-written files each run) and C git as reader and writer (ls-files --stage --debug, update-index, add -N, status); exhaustive single-byte corruption/truncation of small indexes",
      "Generated entry sets (arbitrary-byte paths, v4 strip lengths across 127/128 and 16383/16384, names of 0xFFC..0x2001 bytes, conflict "
      "stages, stat values to 2^63, flag bits, versions 2/3/4 x skipHash x unknown extensions) are written by dulwich, decoded by the "
      "reference codec (order, name-length saturation, padding, varint, trailer), read back by dulwich and listed by git; git-written "
      "indexes are read and rewritten by dulwich and listed again by git, then conflicts are resolved with one side / their sides swapped re-using "
      "the entry objects read from disk; every byte flip (2 patterns) and truncation of small indexes must raise.",
      "reference decoder from gitformat-index; stat fields modulo git's 32-bit truncation; git 2.39.5; sha256 repositories not covered (index code is sha1-only)",
      "DESIGN.md §5 C11")

check("C02", "exploration",
      "runtime differential monitor: packs/indexes produced by the real writers (and by the reader-side indexers) are walked byte by byte by an independent pack/idx reader, read back through Pack/PackData/PackInflater/add_thin_pack, and cross-checked with git index-pack --strict / verify-pack / show-index / pack-objects",
      "Generated object sets (size-varint and 64 KiB boundaries, similar-blob families for delta chains, all types) through every writer x "
      "deltify x window x ofs/ref x compression x idx v1/v2/v3; indexes rebuilt by PackData.create_index and DiskObjectStore.add_pack over "
      "zlib-slice-boundary sweeps; synthetic 64-bit offset tables; git packs with chains to depth 50, idx v1/v2, thin packs through "
      "add_thin_pack, every such pack also streamed through PackStreamReader/add_thin_pack in fixed-size packets of 1..130 bytes; offset deltas "
      "whose distance to the base sweeps the carry boundaries of the offset varint (2^14, 2^15, 3*2^14, 2^16, 2^21 +-460); stored-delta reuse "
      "via write_pack_from_container; SHA-256 through a sha256 repository's object store. Decides the "
      "property on the inputs generated.",
      "vt.ref.packfmt validated on git-written packs each run; byte identity with git's idx only for v2/SHA-1; delta choices never compared; the low-level writers' returned entry table is SHA-1 keyed, so SHA-256 is driven through the object store (the supported path)",
      "DESIGN.md §5 C02")

check("C07", "fault_enumeration",
      "runtime monitoring under a deterministic scheduler: os.*/open interposition gives system-call-granularity yield points; all interleavings of 2 lock-file writers (DFS, exhaustive) and preemption-bounded interleavings of 3 are executed against the real GitFile with a shadow-state monitor (lock creator, hold intervals, content after every step); every file-system call of 16 lock-protocol routines is failed with ENOSPC/EIO/EPERM/KeyboardInterrupt/persistent ENOSPC",
      "Schedules: 6 two-writer shapes explored exhaustively (evidence lists runs and 'exhausted'), 2 three-writer shapes under preemption "
      "bound 2 (thorough 3). Monitors: mutual exclusion, foreign-lock disturbance, atomic replacement after every step, payload-at-rename, "
      "loser gets FileLocked. Faults: each call of index/refs/packed-refs/config/loose-object/shallow/commit-graph/named-file writers x 5 "
      "fault kinds, at OS-visible calls and at user-space buffered writes (a fault at the write that does not repeat at flush); oracle after the exception was handled and collected: every file complete-old or complete-new, no *.lock left, next "
      "writer succeeds; a failed single-lock write leaves the old content; all routines also with core.sharedRepository (chmod in the protocol).",
      "atomicity of a single rename(2)/open(O_EXCL) assumed from POSIX; interleavings at the granularity of interposed Python-level calls; actors are threads with separate objects sharing only the directory",
      "DESIGN.md §5 C07")

check("C08", "exploration",
      "runtime linearizability monitoring: histories of ref operations by 2-3 actors, interleaved by a deterministic scheduler at interposed system-call granularity (all schedules within a preemption bound, DFS), recorded at the client boundary with unique values and checked by exhaustive search against a sequential ref map; commit races judged by ancestry of the final tip",
      "All pairs over {cas, cas via HEAD, stale cas, add_if_new, remove_if_equals, set, delete, pack_refs, read, read via HEAD, read of another "
      "ref, listing (as_dict, checked per key), set_symbolic_ref of an alias whose value equals the target's} x initial state {loose, packed, both, absent} and 5 triples: every schedule with <=2 preemptions (thorough 3) on the ref paths; "
      "operations that raise must linearise as no-ops; final state (symbolic refs kept symbolic) read through a fresh container. WorkTree.commit/do_commit races: every "
      "commit id returned without exception must be an ancestor of the final tip.",
      "interleavings at the granularity of interposed Python-level calls on refs/, HEAD, packed-refs*, *.lock; kernel atomicity of rename/O_EXCL assumed; actors are threads with separate container objects",
      "DESIGN.md §5 C08")

check("C09", "fault_enumeration",
      "runtime crash-point enumeration: each repository-changing operation runs once under os.*/open interposition with user-space buffering emulated by the file proxies; the directory is snapshotted before every mutating system call and after the last (exactly the state a process crash leaves), power-loss variants truncate files with unsynced data, and every state goes through a post-crash checker (dulwich re-open + independent git fsck/for-each-ref); sampled real SIGKILLs under strace cross-validate",
      "19 operations (loose/packed object ingestion, thin pack, fetch into, push into, commit, ref set/add/remove/symref, pack_refs, "
      "pack_loose_objects, repack, gc, index, config, commit-graph, midx) x starting states {loose, packed, mixed, mixed+fsyncObjectFiles}; "
      "detached HEAD on a commit no ref contains, and a dulwich-installed pack whose object set is delivered again in another byte layout; "
      "all crash points per scenario (evidence lists counts); checker: Repo opens, every ref old-or-new and naming a present object, the whole "
      "pre-operation closure readable with identical bytes, visible objects hash to their names, index/config parse to old or new, git fsck "
      "--full --strict passes, git lists old-or-new refs.",
      "crash boundaries are those of interposed Python-level calls; power loss = loss of unsynced file data only (no directory-operation reordering); kernel atomicity of rename assumed",
      "DESIGN.md §5 C09")

check("C10", "exploration",
      "runtime monitoring of maintenance: (1) closure-preservation monitor over random git-built histories and random dulwich maintenance sequences with an independent (git) closure oracle re-read after every step; (2) reader/repacker actors interleaved by the deterministic scheduler at system-call granularity on objects/** with a lookup-never-misses monitor",
      "150 (thorough 1500) histories from 17 build-op kinds (alternates, gitlinks, symlinks, detached HEAD, tags of blobs, duplicates across packs "
      "and loose files, aged files, deleted/reset branches) x 1..5 of 14 maintenance steps: after each step every object of the pre-state closure "
      "of refs+HEAD is read through a fresh Repo (same type and bytes), git fsck --connectivity-only (objects and refs; commit-graph verification counted separately) passes, vanished ids are unreachable and "
      "outside the grace period (youngest copy counts: old pack + young loose duplicate); refs directly below refs/; maintenance through a "
      "long-lived handle after another process moved and re-packed a ref. Concurrent: 4 repacker workloads x 3 layouts (two packs, pack+loose, "
      "multi-pack-index) x 3 reader configurations, every schedule with <=2 preemptions; C git's prune-packed emulated call by call against "
      "iterating readers; a directed adversary (scheduler policy) that lets two complete maintenance steps overtake one lookup at every pair "
      "of the reader's file-system calls.",
      "objects reachable only from index/reflogs and gitlink targets are outside the statement; iteration gaps during a repack are counted, not judged; scheduler granularity = interposed Python-level calls",
      "DESIGN.md §5 C10")

check("C06", "exploration",
      "runtime reference-model monitor of receive-pack: generated command lists are pushed through the real ReceivePackHandler (scripted pkt-line client), by C git push against the dulwich TCP server, and by LocalGitClient; raw report-status lines and the server refs read back with git are compared with a sequential receive-pack model; racing pushers are interleaved by the deterministic scheduler",
      "1200 (thorough 12000) scripted pushes: 1..3 commands over loose / packed / loose+packed / new / nested refs x old in {right, stale, zero-but-"
      "exists, nonzero-but-absent} x new in {new commits, object already on server, delete, missing object, not in pack} x {atomic, side-band-64k, "
      "ofs-delta} x pack {intact, trailer bit flipped, truncated, body bit flipped: nothing may take effect}; git push [--atomic] "
      "[--force-with-lease right/stale] over git://; two pushers racing on one ref (handler and local paths; loose, packed and not yet existing "
      "refs incl. nested and tag) under all schedules with <=2 preemptions, two local successes judged against the old value each pusher saw. "
      "Oracle: ok <=> value, stale => untouched+rejected, targets exist, atomic all-or-none.",
      "sequential receive-pack model; server refs read back with C git; hooks not exercised",
      "DESIGN.md §5 C06")

check("C05", "exploration",
      "runtime closure monitor over real transfers: random git-built DAGs are fetched/pushed through 9 fetch and 3 push transports (in-process local, dulwich TCP and WSGI-HTTP servers on loopback with dulwich and C git clients, C git upload-pack/receive-pack with dulwich clients, depth-limited + deepen); receiver closure, byte identity and git fsck are checked with C git, the wire pack is captured and decoded by an independent pack reader for minimality; plus a scripted upload-pack client (whole conversation written up front, reply decoded with the independent pkt-line/side-band/pack readers) and hostile wants for unadvertised objects",
      "360 (thorough 3600) fetches and 90 (900) pushes over DAGs with merges, octopus merges, several roots, shared blobs/subtrees, gitlinks (also "
      "to own commits), symlinks, annotated tags of commits/trees/blobs/tags x receiver pre-state {empty, ancestor-closed partial} x wants {all, "
      "some, one}. O1 closure of transferred refs present + git fsck --full --strict; O2 identical (type, bytes); O3 wire pack ids within "
      "closure(wants) + auto-followed tag chains and within closure(advertised); O4 reported refs equal the sender's.",
      "closures computed by git rev-list --objects on the sender; gitlink targets excluded; a dulwich server refusing a client without thin-pack/ofs-delta/side-band-64k is a refused configuration, so the scripted upload-pack client enumerates the optional capabilities only (multi_ack none/multi_ack/detailed x no-done x include-tag x no-progress); ACK ordering beyond 'only ids that were sent' is counted, not judged",
      "DESIGN.md §5 C05")

check("C04", "fault_enumeration",
      "exhaustive byte/bit/truncation fault enumeration of small valid packs and installed files plus 77 grammar-aware hostile packs, each run against the real ingestion paths in crash-isolated workers under a kernel address-space limit, a CPU budget relative to the undamaged input and a zlib output monitor; post-state oracle compares the store seen by a fresh Repo and the pack directory against the pre-state and re-hashes every visible object with hashlib",
      "5 seed packs (git full/OFS/REF/thin, dulwich deltified; 1-2 KB) x paths {add_thin_pack with hostile chunking, add_pack+commit, PackStreamReader, "
      "MemoryObjectStore.add_thin_pack, ReceivePackHandler, add_pack_data from a source pack with intact idx and damaged data}: every byte x "
      "{^01,^80,=00,=ff} (thorough: all 8 bit flips, every position and every truncation on every path), tails, splices; grammar attacks: count "
      "high/low/huge, wrong trailer, versions, OFS offset 0/beyond start/into an entry/forward, REF delta to self/missing/two-cycle, empty delta, "
      "zero/garbage/headerless commit-tree-tag payloads, size header too small/big/2^64, zlib trailing garbage, single- and multi-slice "
      "decompression bombs, valid depth-40 chain, 26 hostile delta payloads inside structurally valid OFS/REF packs (copy past the base, "
      "4 GiB offsets, size-0 copies, truncated inserts, size mismatches, reserved opcode, over-long varints), malformed tree/commit/tag "
      "payloads before and after well-formed objects; installed loose object/idx/index/packed-refs/commit-graph/multi-pack-index: every (2nd) byte "
      "x 2 patterns + truncations, reads through Repo (packed-refs asked twice on one handle, then updated); I/O faults: a valid pack ingested "
      "while the k-th mutating call (incl. buffered writes) fails with ENOSPC/EIO, every k, 3 paths. Rust and pure-Python decoders both driven.",
      "ordinary error = Exception subclass; leftover tmp files after a failed ingestion are counted, not judged; Pack.get_raw trusts its idx by design, only store[id] is judged for damaged indexes; the inflation bound is declared size + 64 KiB per zlib stream",
      "DESIGN.md §5 C04")

check("C14", "exploration",
      "differential runtime monitor: a battery of ~300-1500 queries (lookup by hex/binary id, membership, iteration, parents provider, find_shallow, get_depth, _collect_ancestors, both reachability providers, MissingObjectFinder, merge bases, walker, refs/peeled/symrefs) is answered by a fresh Repo on the repository with its acceleration files and on a byte copy stripped of them; probes count how often commit-graph, midx and bitmap actually produced an answer; differing answers are attributed by removing one accelerator at a time",
      "C05 history generator (merges, octopus, multiple roots, all tag kinds, gitlinks; 1-3 packs + loose) x subsets of {commit-graph, midx, bitmap "
      "(hash cache/lookup table on/off), packed-refs, idx v1/v2/v3} written by C git or dulwich x staleness {none, new loose commits, new pack, "
      "deleted refs, full repack / prune with the old files put back, files of another repository or pack}; every accelerator alone x writer x "
      "staleness; ref-write sequences on packed vs loose refs (values from a small pool so earlier values recur); long-lived handles that see "
      "an external repack/gc/new pack between warm-up and lookups; query scripts (MissingObjectFinder, get_reachable_commits with/without "
      "exclude, get_reachable_objects; 1-3 heads, 0-3 excludes, order-sensitive) on a handle holding freshly generated bitmaps vs a bitmap-free copy; "
      "ancestor / missing-object / reachable-commit queries that stop at a shallow boundary; a multi-pack-index of another repository.",
      "get_peeled None is 'no cached information' by contract and not compared against a value; C git cannot read idx v3, so the idx is rewritten after the history was continued; bitmaps read back from disk are never consulted on this tree (probe: 0 bitmap-produced answers; find_commit_bitmaps looks hex ids up in a table keyed by binary ids), so bitmap transparency is decided on the handle that generated them (live-bitmap scenario: scripted query sequences with/without in-memory bitmaps, ~600 bitmap-produced answers per quick run)",
      "DESIGN.md §5 C14")

check("C17", "exploration",
      "runtime audit monitor (sys.addaudithook) around the library's own checkout code: every mutating file-system call is resolved physically at the moment of the call (realpath of the parent, dir_fd-relative paths via /proc, followed target for calls that follow a final symlink) and classified work-tree / .git / outside, .git writes attributed to the innermost dulwich frame; plus before/after snapshots of a sandbox parent with canaries and of the stable part of .git, plus a marker scan for hostile blob content",
      "sequences of 1-3 trees written as raw bytes (41 adversarial names: '..', '.', '', .git/.GIT/'.git '/'.git.'/git~1/ADS/HFS-ignorable "
      "variants, embedded '/', backslashes, absolute paths, drive prefixes; symlinks to absolute/parent/sibling/.git targets; set-id/sticky/"
      "world-writable/odd modes; gitlinks; pooled names that change type between steps) x drivers {WorkTree.reset_index, reset --hard, "
      "reset --mixed then --hard, checkout, switch, update_working_tree, clone then checkouts, stash pop of a crafted stash, apply_patch of "
      "crafted create/modify/delete/rename/copy/mode/symlink diffs} x core.protectNTFS/protectHFS/symlinks unset/true/false; directed "
      "sequences (directory then symlink of the same name and the reverse, refused half-way, symlink then gitlink, file/dir/link, a slash-bearing "
      "name sorted after a subtree so iteration revisits a directory) with "
      "link targets outside the work tree or inside .git, and a final step back to a benign base commit.",
      "a .git write is legitimate only when the innermost dulwich frame is a git-internal writer (file/refs/object_store/pack/reflog/config/repo); set-id/sticky bits on created files are counted, not judged; hostile absolute paths point into the sandbox and the monitor blocks anything that would land beyond it",
      "DESIGN.md §5 C17")

check("C18", "exploration",
      "three-observer runtime monitor around the library's own checkout/status/staging code: after every step dulwich's answer is compared with an independent model (HEAD from git ls-tree, index from git ls-files -s, working directory from the harness's own lstat/read/readlink walk with its own blob hashing) and with C git (status --porcelain=v1 -z, write-tree); a step where model and C git disagree is inconclusive, never a violation",
      "random trees of 2-8 valid paths (31 name shapes: spaces, tabs, quotes, backslashes, newlines, control bytes, non-UTF-8, NFC/NFD, 120-byte "
      "names, leading dash, glob characters; nesting up to 2) with empty/text/binary/CRLF/70-300 KB contents, executables, symlinks (dangling, "
      "to directories, self-referential, absolute), and two related trees each (content, exec-bit only, type change with identical bytes, "
      "add/delete, file<->directory); checkout by clone / reset --hard / checkout; restage into the existing or an emptied index; 2-8 random "
      "edits {modify same/different size, chmod (incl. partial execute bits such as 0744/0654), delete, untracked file/dir (with empty sub-directories), file<->symlink, file<->dir, add, WorkTree.stage, unstage, "
      "rm --cached, commit, switch, untracked directory whose name is a byte prefix of a tracked sibling} with a status comparison after "
      "each in untracked-files=all and =normal; reset --hard from the edited state must restore every tracked path; up to 4 ordered pairs "
      "of clean branch switches per case.",
      "core.autocrlf=false, no .gitignore/.gitattributes, untracked-files=all; index operations that refuse (unstage of a file<->directory change) are counted and the state they leave is still compared; the harness waits 12 ms after index writes so edits are not racily clean by accident (dulwich has no racy-clean protection; not driven here)",
      "DESIGN.md §5 C18")

ALL = ["C%02d" % i for i in range(1, 21)]


def main():
    checks = []
    for pid in ALL:
        if pid not in CHECKS:
            continue
        cat, tech, text, note, ref = CHECKS[pid]
        checks.append({
            "property_id": pid,
            "quick_cmd": "./check %s --tier quick" % pid,
            "thorough_cmd": "./check %s --tier thorough" % pid,
            "evidence_file": "/verif/evidence/%s.json" % pid,
            "replay_cmd_template": "./check %s --replay {path}" % pid,
            "engine": "vt",
            "level_claimed": {"category": cat, "text": text, "design_ref": ref},
            "level_note": note,
            "technique": tech,
        })
    na = [{"property_id": p, "reason": NOT_YET.get(p, "check not built yet in this round (planned, see DESIGN.md §12); not claimed until it runs silent on the unchanged tree")}
          for p in ALL if p not in CHECKS]
    m = {
        "version": 1,
        "setup_cmd": "./check --setup",
        "hooks": {
            "guard": "DULWICH_VERIF",
            "enable": "no source hooks: all instrumentation (os.* interposition, audit hooks, contracts, sys.monitoring, extension rebuild/redirect) is applied from the harness at run time",
            "baseline_off_cmd": "cd /repo && /venv/bin/python -m pytest -ra -q -p no:cacheprovider --timeout=900 --continue-on-collection-errors",
            "source_commits": [],
            "add_only": True,
        },
        "engines": [
            {"name": "vt", "path": "/verif/vt", "serves_properties": sorted(CHECKS),
             "kind_free_text": "runtime monitoring harness: crash-isolating worker pool, generators, reference oracles, C git as independent observer, os.* interposition + deterministic scheduler + crash/fault injection, audit hooks"},
        ],
        "checks": checks,
        "not_applicable": na,
        "notes": "All checks run the real code of /repo's working tree (Rust crates rebuilt with cargo --offline into /verif/.build). Exit 0 held / 1 VIOLATION / 2 INCONCLUSIVE (harness lost contact with the code). Known findings: /verif/known_findings.json.",
    }
    with open(os.path.join(ROOT, "MANIFEST.json"), "w") as f:
        json.dump(m, f, indent=1)
        f.write("\n")
    print("MANIFEST.json: %d checks, %d not_applicable" % (len(checks), len(na)))


if __name__ == "__main__":
    main()
